"""Validate MANIFEST.json and all evidence files against the schemas (uses python3-vt's jsonschema)."""
import json, jsonschema, glob, sys
ok = True
try:
    jsonschema.validate(json.load(open('/verif/MANIFEST.json')), json.load(open('/root/.vp/MANIFEST.schema.json')))
    print("MANIFEST ok")
except Exception as e:
    ok = False; print("MANIFEST BAD", str(e)[:300])
sch = json.load(open('/root/.vp/EVIDENCE.schema.json'))
for f in sorted(glob.glob('/verif/evidence/*.json')):
    try:
        jsonschema.validate(json.load(open(f)), sch); print("ok", f)
    except Exception as e:
        ok = False; print("BAD", f, str(e)[:300])
sys.exit(0 if ok else 1)
