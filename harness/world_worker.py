"""Fresh-interpreter worker of the C14 check: executes requested public calls with no call history before them.
usage: python -m harness.world_worker requests.json out.json     (VERIF_REPO selects the tree)"""
import sys, json, warnings, os
import numpy as np


def main():
    from harness.core import import_repo, deadline
    import_repo()
    from harness import world_lib as wl
    reqs = json.load(open(sys.argv[1]))
    F, RANDOM = wl.funcs()
    out = []
    cur = None
    for r in reqs:
        cfg = (r["sps"], r["R"], r["N"])
        if cfg != cur:
            wl.configure(*cfg)
            with warnings.catch_warnings():
                warnings.simplefilter("ignore")
                I = wl.inputs()
            cur = cfg
        build, fn, _ = F[r["name"]]
        args = build(I)
        np.random.seed(r["seed"])
        gb, rb, ab = wl.gv_raw(), wl.rng_raw(), "a" + wl.dig(args)
        try:
            with warnings.catch_warnings():
                warnings.simplefilter("ignore")
                with deadline(120):
                    res = fn(args)
            rk = "r" + wl.dig(res)
        except Exception as e:
            rk = "exc" + type(e).__name__ + (str(e)[:80] if not isinstance(e, ValueError) else "")
        out.append({"name": r["name"], "args": ab, "argsAfter": "a" + wl.dig(args), "gvBefore": gb, "gvAfter": wl.gv_raw(),
                    "rngBefore": rb, "rngAfter": wl.rng_raw(), "res": rk})
    json.dump(out, open(sys.argv[2], "w"))


if __name__ == "__main__":
    main()
