"""Behaviours out of TLC: MC_* wrappers print `<<"EV", "<json>">>` for every distinct state
(invariant Emit, one worker) - parsed here."""
import json, re

_pat = re.compile(r'^<<"EV", "(.*)">>$')


def parse_ev(out):
    evs = []
    for line in out.splitlines():
        m = _pat.match(line.strip())
        if m:
            s = m.group(1).replace('\\"', '"').replace('\\\\', '\\')
            evs.append(json.loads(s))
    return evs
