"""Core of the verification harness: TLC runner, evidence, known findings, deadlines.

Every check is `./check Cxx quick|thorough`.  A driver (harness/drivers/Cxx.py) gets a Ctx and
  * runs TLC on the design spec (model checking; property violated in the model = machinery error),
  * replays behaviours / tables produced by TLC on the real code (binding R),
  * records events from the real code and lets TLC validate them against the trace spec (binding T),
  * reports violations through ctx.violation(key, ...); known findings are filtered by key.
Exit codes: 0 ok, 1 violation (with a `VIOLATION property=.. replay=..` line), 2 machinery failure.
"""
import os, sys, json, time, tempfile, shutil, subprocess, re, signal, atexit, contextlib, warnings, threading
import numpy as np
from concurrent.futures import ThreadPoolExecutor

VERIF = os.path.dirname(os.path.dirname(os.path.abspath(__file__)))
SPEC = os.path.join(VERIF, "spec")
REPO = os.environ.get("VERIF_REPO", "/repo")
TLA_JAR = "/opt/veriftools/tla/tla2tools.jar"
TLA_CP = TLA_JAR + ":/opt/veriftools/tla/CommunityModules-deps.jar"
NCPU = os.cpu_count() or 4


class MachineryError(Exception):
    pass


class Deadline(Exception):
    pass


@contextlib.contextmanager
def deadline(seconds):
    """Every call into the implementation runs under a deadline (a hang is a violation, not a stuck check)."""
    def _h(signum, frame):
        raise Deadline(f"call exceeded {seconds}s")
    old = signal.signal(signal.SIGALRM, _h)
    signal.setitimer(signal.ITIMER_REAL, seconds)
    try:
        yield
    finally:
        signal.setitimer(signal.ITIMER_REAL, 0)
        signal.signal(signal.SIGALRM, old)


def import_repo():
    if REPO not in sys.path:
        sys.path.insert(0, REPO)
    os.environ.setdefault("MPLBACKEND", "Agg")
    os.environ["OPTICOMLIB_VERIF"] = "1"
    warnings.filterwarnings("ignore")
    import opticomlib  # noqa
    warnings.filterwarnings("ignore")
    return opticomlib


USER_GLOBALS = dict(Vpi=2.9, BW=3.1e9, ER=7.0, ER_dB=7.0, loss=2.0, loss_dB=2.0, bias=1.3, alpha=0.3, beta_2=-5.0, beta_3=0.2, gamma=2.0, length=7.0,
                    G=3.0, NF=4.5, r=0.3, T=77.0, R_load=11.0, responsivity=0.3, i_d=3e-9, Fn=2.0, M=8, Vout=0.7, pol="y", lw=1e6, rin=-150.0, df=1e9,
                    phi_max=0.5, D=3.0, order=9, seed=5, n_pol=2, c=1.0, m=3, pulse_shape="rz", include_noise="thermal")


def pollute_gv(gv, on=True):
    """gv stores arbitrary user keywords (gv(sps=.., R=.., Vpi=..), as the library's own examples do). A device called with explicit
    arguments, or documented defaults, must not depend on them: set (on) or remove (off) a collection of plausible user globals."""
    for k, v in USER_GLOBALS.items():
        if on:
            setattr(gv, k, v)
        elif k in vars(gv):
            delattr(gv, k)


def protect(*objs):
    """Write-protect every numpy buffer reachable from the given arguments (ndarrays, signal containers, bit sequences, lists/tuples of
    them): a library function that works in place on its input then raises inside the library, which the harness reports as a violation.
    Returns the single object (or the tuple) for convenience."""
    def walk(o):
        if isinstance(o, np.ndarray):
            o.flags.writeable = False
        elif isinstance(o, (list, tuple)):
            for v in o:
                walk(v)
        else:
            for attr in ("signal", "noise", "data"):
                a = getattr(o, attr, None)
                if isinstance(a, np.ndarray):
                    a.flags.writeable = False
    for o in objs:
        walk(o)
    return objs[0] if len(objs) == 1 else objs


@contextlib.contextmanager
def fresh_repo():
    """A freshly imported instance of the library (all module-level state - caches, singletons - reset), used to obtain
    results that cannot depend on the calls made before.  The previously imported modules are restored afterwards."""
    saved = {k: v for k, v in sys.modules.items() if k == "opticomlib" or k.startswith("opticomlib.")}
    for k in saved:
        del sys.modules[k]
    try:
        with warnings.catch_warnings():
            warnings.simplefilter("ignore")
            import importlib
            pkg = importlib.import_module("opticomlib")
            mods = {name: importlib.import_module("opticomlib." + name) for name in ("typing", "devices", "utils", "ook", "ppm")}
        yield mods
    finally:
        for k in [k for k in sys.modules if k == "opticomlib" or k.startswith("opticomlib.")]:
            del sys.modules[k]
        sys.modules.update(saved)


class TlcResult:
    def __init__(self, out, rc):
        self.out, self.rc = out, rc
        m = re.findall(r"(\d[\d,]*) states generated, (\d[\d,]*) distinct states found", out)
        self.generated = int(m[-1][0].replace(",", "")) if m else 0
        self.distinct = int(m[-1][1].replace(",", "")) if m else 0
        m = re.findall(r"depth of the complete state graph search is (\d+)", out)
        self.depth = int(m[-1]) if m else 0
        self.violated = re.findall(r"Error: Invariant (\S+) is violated", out) + \
            re.findall(r"Error: Action property (\S+) is violated", out) + \
            (["<temporal>"] if "Temporal properties were violated" in out else []) + \
            (["<deadlock>"] if "Deadlock reached" in out else []) + \
            (["<assumption>"] if re.search(r"Assumption .* is false", out) else [])
        self.error = ("Error:" in out) or rc not in (0,)
        self.ok = (not self.error) and ("Model checking completed. No error has been found" in out
                                        or "Finished in" in out)

    def coverage(self):
        """action name -> (distinct, total) from -coverage output"""
        cov = {}
        for m in re.finditer(r"<(\w+) line \d+, col \d+ to line \d+, col \d+ of module (\w+)(?: \([\d ]+\))?>: (\d+):(\d+)", self.out):
            cov[m.group(1)] = (int(m.group(3)), int(m.group(4)))
        return cov


class Ctx:
    def __init__(self, pid, tier, seed, level, replay=None):
        self.pid, self.tier, self.seed, self.level = pid, tier, seed, level
        self.replay = replay
        self.t0 = time.time()
        self.tmp = tempfile.mkdtemp(prefix=f"opticomverif_{pid}_")
        atexit.register(shutil.rmtree, self.tmp, True)
        self.specdir = os.path.join(self.tmp, "spec")
        shutil.copytree(SPEC, self.specdir)
        self.states = 0
        self.transitions = 0
        self.tlc_runs = []
        self.evaluations = 0
        self.classes = set()
        self.samples = []
        self.traces = 0
        self.events = 0
        self.behaviours = 0
        self.assumptions = []
        self.extra = {}
        self.violations = []      # (key, detail, replay_path)
        self.known_hit = []
        self.exhaustive = False
        self.rule = ""
        self._nfile = 0
        self._lock = threading.Lock()
        kf = os.path.join(VERIF, "known_findings.json")
        self.known = json.load(open(kf)).get("findings", []) if os.path.exists(kf) else []
        self.thorough = (tier == "thorough")

    # ---------------------------------------------------------------- files
    def path(self, name):
        return os.path.join(self.specdir, name)

    def newfile(self, stem, ext):
        with self._lock:
            self._nfile += 1
            k = self._nfile
        return os.path.join(self.specdir, f"{stem}_{k}.{ext}")

    # ---------------------------------------------------------------- TLC
    def tlc(self, module, cfg, env=None, workers=None, simulate=None, depth=None, dump=None,
            coverage=False, timeout=900, expect_ok=True, extra=None, count=True, dfs=False, note=None, actions=None):
        """Run TLC on spec/<module>.tla with config text or file `cfg`.  Returns TlcResult."""
        if "\n" in cfg or " " in cfg:
            cfgfile = self.newfile(module, "cfg")
            open(cfgfile, "w").write(cfg)
        else:
            cfgfile = self.path(cfg)
        with self._lock:
            self._nfile += 1
            meta = os.path.join(self.tmp, f"meta_{self._nfile}")
        jopts = ["-XX:+UseParallelGC", "-Xmx8g", "-Xss256m"]
        if dfs:
            jopts.append("-Dtlc2.tool.queue.IStateQueue=StateDeque")
        cmd = ["java"] + jopts + ["-cp", TLA_CP, "tlc2.TLC", "-metadir", meta, "-noGenerateSpecTE",
                                  "-config", cfgfile]
        if simulate:
            cmd += ["-simulate", simulate]
            if depth:
                cmd += ["-depth", str(depth)]
            cmd += ["-seed", str(self.seed)]
        if workers is None:
            workers = 1 if simulate else min(NCPU, 16)
        cmd += ["-workers", str(workers)]
        if dump:
            cmd += ["-dump", "dot,actionlabels", dump]
        if coverage or actions:
            cmd += ["-coverage", "1"]
        if extra:
            cmd += extra
        cmd += [module + ".tla"]
        e = dict(os.environ)
        e.update({k: str(v) for k, v in (env or {}).items()})
        t = time.time()
        try:
            p = subprocess.run(cmd, cwd=self.specdir, env=e, stdout=subprocess.PIPE, stderr=subprocess.STDOUT,
                               timeout=timeout, text=True)
        except subprocess.TimeoutExpired as ex:
            raise MachineryError(f"TLC timed out after {timeout}s on {module}")
        shutil.rmtree(meta, True)
        r = TlcResult(p.stdout, p.returncode)
        r.wall = time.time() - t
        with self._lock:
            if count:
                self.states += r.distinct
                self.transitions += r.generated
        self.tlc_runs.append({"module": module, "note": note or "", "distinct": r.distinct, "generated": r.generated,
                              "depth": r.depth, "wall_s": round(r.wall, 2),
                              "mode": "simulate" if simulate else "exhaustive"})
        if expect_ok and count and not simulate and r.distinct == 0 and ("SPECIFICATION" in open(cfgfile).read() or "INIT" in open(cfgfile).read()):
            raise MachineryError(f"TLC explored no state of {module} ({note}): the model is vacuous")
        if actions and not (r.error or r.violated):
            cov = r.coverage()
            dead = [a for a in actions if cov.get(a, (0, 0))[1] == 0]
            if dead:
                raise MachineryError(f"vacuity: action(s) {dead} of {module} were never taken in '{note}' (coverage {cov})")
            self.tlc_runs[-1]["actions_taken"] = {a: cov[a][1] for a in actions}
        if expect_ok and (r.error or r.violated):
            tail = "\n".join(p.stdout.splitlines()[-60:])
            raise MachineryError(f"TLC failed on {module} ({note}): violated={r.violated}\n{tail}")
        return r

    def tlc_many(self, jobs, parallel=8):
        """jobs: list of kwargs dicts for self.tlc; run concurrently; returns results in order"""
        with ThreadPoolExecutor(max_workers=parallel) as ex:
            futs = [ex.submit(lambda kw=kw: self.tlc(**kw)) for kw in jobs]
            return [f.result() for f in futs]

    def apalache(self, module, args, expect_error=False, timeout=900, note=None):
        """Run apalache-mc check on spec/<module>.tla (symbolic, unbounded integers).  Returns True if no error was found."""
        out = os.path.join(self.tmp, f"apalache_{len(self.tlc_runs)}")
        cmd = ["apalache-mc", "check", f"--out-dir={out}"] + args + [module + ".tla"]
        t = time.time()
        try:
            p = subprocess.run(cmd, cwd=self.specdir, stdout=subprocess.PIPE, stderr=subprocess.STDOUT, timeout=timeout, text=True)
        except subprocess.TimeoutExpired:
            raise MachineryError(f"apalache timed out on {module}")
        shutil.rmtree(out, True)
        ok = "The outcome is: NoError" in p.stdout
        bad = "The outcome is: Error" in p.stdout
        self.tlc_runs.append({"module": module, "note": (note or "") + " [apalache " + " ".join(args) + "]", "distinct": 0, "generated": 0, "depth": 0,
                              "wall_s": round(time.time() - t, 2), "mode": "apalache", "outcome": "NoError" if ok else ("Error" if bad else "failed")})
        if not ok and not bad:
            raise MachineryError(f"apalache failed on {module}: " + p.stdout[-1500:])
        if ok == expect_error:
            raise MachineryError(f"apalache on {module} {args}: outcome {'NoError' if ok else 'Error'} but expected the opposite\n" + p.stdout[-1500:])
        return ok

    def tlc_eval(self, module, inp=None, env=None, timeout=900, lines=False, note=None, cfg="CHECK_DEADLOCK FALSE\n"):
        """Constant-level evaluation: module has `ASSUME JsonSerialize(IOEnv.OUT_FILE, ...)` and reads
        IOEnv.IN_FILE (json, or ndjson when lines=True).  Returns the parsed OUT_FILE."""
        e = dict(env or {})
        if inp is not None:
            f = self.newfile(module + "_in", "ndjson" if lines else "json")
            with open(f, "w") as fh:
                if lines:
                    for ev in inp:
                        fh.write(json.dumps(ev) + "\n")
                else:
                    json.dump(inp, fh)
            e["IN_FILE"] = f
        out = self.newfile(module + "_out", "json")
        e["OUT_FILE"] = out
        r = self.tlc(module, cfg, env=e, workers=1, timeout=timeout, expect_ok=False,
                     count=False, note=note or "eval")
        if not os.path.exists(out):
            tail = "\n".join(r.out.splitlines()[-40:])
            raise MachineryError(f"TLC evaluation of {module} produced no output\n{tail}")
        return json.load(open(out))

    def validate(self, module, events, note=None, timeout=1800, env=None):
        """Batch trace validation (binding T, stateless form): `module` defines Bad over
        ndJsonDeserialize(IN_FILE) and serialises [n, bad: set of <<index, clause>>]."""
        if not events:
            return []
        try:
            res = self.tlc_eval(module, events, lines=True, note=note or "trace validation", timeout=timeout, env=env)
        except MachineryError as ex:
            # The trace specification could not be evaluated on the recorded events (e.g. an observation so malformed that
            # a CHOOSE has no witness or an index is out of range).  On the unchanged tree every trace evaluates, so this
            # is reported as a rejection of the trace, not as a harness failure.
            txt = str(ex)
            if "Attempted to" in txt or "Evaluating assumption" in txt or "was not in the domain" in txt:
                self.violation("trace-not-evaluable:" + module, "recorded events are outside what the trace specification can evaluate: "
                               + txt[-600:], {"events_head": events[:3]})
                return []
            raise
        if res.get("n") != len(events):
            raise MachineryError(f"{module}: validated {res.get('n')} of {len(events)} events")
        self.events += len(events)
        self.traces += 1
        return res.get("bad", [])

    # ---------------------------------------------------------------- bookkeeping
    def case(self, cls, sample=None, nontrivial=True):
        """count one explored case; cls = abstract class tuple used for distinct_nontrivial"""
        self.evaluations += 1
        if nontrivial:
            c = repr(cls)
            if c not in self.classes:
                self.classes.add(c)
                if sample is not None and len(self.samples) < 12:
                    self.samples.append(sample)

    def violation(self, key, detail, replay_obj=None):
        """key identifies the failing input / call site (matched against known_findings.json)"""
        for k in self.known:
            if k.get("property") == self.pid and (k.get("key") == key or
                                                  (k.get("key_regex") and re.fullmatch(k["key_regex"], key))):
                if k["key" if "key" in k else "key_regex"] not in [h[0] for h in self.known_hit]:
                    self.known_hit.append((k.get("key", k.get("key_regex")), k.get("what", detail)))
                return False
        if len(self.violations) < 400:
            rdir = os.environ.get("VERIF_REPLAY_DIR", os.path.join(VERIF, "replays"))
            os.makedirs(rdir, exist_ok=True)
            rp = os.path.join(rdir, f"{self.pid}_{len(self.violations)}.json")
            with open(rp, "w") as fh:
                json.dump({"property": self.pid, "key": key, "detail": detail, "replay": replay_obj,
                           "tier": self.tier, "seed": self.seed}, fh, indent=1, default=str)
            self.violations.append((key, detail, rp))
        return True

    def finish(self):
        wall = time.time() - self.t0
        cov = {
            "states": int(self.states), "transitions": int(self.transitions),
            "traces_validated_against_impl": int(self.traces + self.behaviours),
            "behaviours_replayed_on_impl": int(self.behaviours),
            "trace_batches_validated_by_tlc": int(self.traces),
            "trace_events_validated_by_tlc": int(self.events),
            "evaluations": int(self.evaluations),
            "distinct_nontrivial": int(len(self.classes)),
            "rule": self.rule,
            "samples": self.samples[:12] if self.samples else ["<none>"],
            "exhaustive": bool(self.exhaustive),
            "tlc_runs": self.tlc_runs,
            "checker_cmd": "tlc (TLC2, tla2tools 1.8.0) + /venv/bin/python harness",
            "known_findings_hit": [k for k, _ in self.known_hit],
        }
        cov.update(self.extra)
        ev = {"property_id": self.pid, "tier": self.tier, "seed": int(self.seed), "level": self.level,
              "coverage": cov, "assumptions": self.assumptions, "wall_s": round(wall, 2),
              "violations": len(self.violations)}
        evdir = os.environ.get("VERIF_EVIDENCE_DIR", os.path.join(VERIF, "evidence"))   # (seeded-change runs write elsewhere)
        os.makedirs(evdir, exist_ok=True)
        with open(os.path.join(evdir, f"{self.pid}.json"), "w") as fh:
            json.dump(ev, fh, indent=1, default=str)
        for k, what in self.known_hit:
            print(f"KNOWN-FINDING: property={self.pid} {k}: {what}")
        if self.violations:
            for key, detail, rp in self.violations[:int(os.environ.get('VERIF_SHOW', '10'))]:
                print(f"  violation {key}: {detail}")
            print(f"VIOLATION property={self.pid} replay={self.violations[0][2]}")
            return 1
        print(f"OK property={self.pid} tier={self.tier} states={self.states} transitions={self.transitions} "
              f"cases={self.evaluations} distinct={len(self.classes)} events={self.events} wall={wall:.1f}s")
        return 0
