"""Harness-side interposition of numpy's global RNG entry points (no repository change).
While a tap is active every draw made through numpy.random.{randn, normal, standard_normal} is recorded as
unit-variance blocks (for normal: (out-loc)/scale) together with the scale that was passed; the returned values are the
real ones, so the library's behaviour is unchanged."""
import contextlib
import numpy as np


class Tap:
    def __init__(self):
        self.blocks = []      # list of (unit_block_2d, scale_passed)
        self.calls = []

    def rows(self):
        out = []
        import os
        if os.environ.get("VERIF_NO_TAP") == "1":       # test switch: behave as if the library's draws were not recognisable
            return out
        for unit, scale in self.blocks:
            u = np.asarray(unit)
            u = u.reshape(1, -1) if u.ndim <= 1 else u.reshape(-1, u.shape[-1])       # any leading layout: one row per draw along the last axis
            for r in u:
                out.append((r, scale))
        return out


@contextlib.contextmanager
def tap():
    t = Tap()
    o_randn, o_normal, o_std = np.random.randn, np.random.normal, np.random.standard_normal

    def randn(*shape):
        out = o_randn(*shape)
        t.blocks.append((np.array(out, copy=True), 1.0))
        t.calls.append(("randn", shape))
        return out

    def normal(loc=0.0, scale=1.0, size=None):
        out = o_normal(loc, scale, size)
        sc = np.asarray(scale, dtype=float)
        if sc.ndim == 0 and float(sc) != 0.0:
            t.blocks.append(((np.array(out, copy=True) - loc) / float(sc), float(sc)))
        else:
            t.blocks.append((np.array(out, copy=True), None))
        t.calls.append(("normal", (loc, scale, size)))
        return out

    def standard_normal(size=None):
        out = o_std(size)
        t.blocks.append((np.array(out, copy=True), 1.0))
        t.calls.append(("standard_normal", size))
        return out

    np.random.randn, np.random.normal, np.random.standard_normal = randn, normal, standard_normal
    # a library module may have bound the entry points by name (`from numpy.random import normal`): interpose there as well
    import sys
    swapped = []
    for mname, mod in list(sys.modules.items()):
        if mod is None or not mname.startswith("opticomlib"):
            continue
        for attr, val in list(vars(mod).items()):
            if callable(val) and getattr(val, "__self__", None) is getattr(o_normal, "__self__", object()) and getattr(val, "__name__", "") in ("randn", "normal", "standard_normal"):
                swapped.append((mod, attr, val))
                setattr(mod, attr, {"randn": randn, "normal": normal, "standard_normal": standard_normal}[val.__name__])
    try:
        yield t
    finally:
        np.random.randn, np.random.normal, np.random.standard_normal = o_randn, o_normal, o_std
        for mod, attr, val in swapped:
            setattr(mod, attr, val)


def explain(component, rows):
    """least-squares fit component = a * row for each recorded unit row; returns (index, a, relative residual) of the best"""
    best = (None, 0.0, 1.0)
    c = np.asarray(component, dtype=float).ravel()
    cn = np.linalg.norm(c)
    if cn == 0:
        return (None, 0.0, 0.0)
    for i, (r, _) in enumerate(rows):
        r = np.asarray(r, dtype=float).ravel()
        if r.shape != c.shape:
            continue
        a = float(np.dot(r, c) / np.dot(r, r))
        res = float(np.linalg.norm(c - a * r) / cn)
        if res < best[2]:
            best = (i, a, res)
    return best
