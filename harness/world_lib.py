"""Shared by the C14 driver and its fresh-process worker: digests, shared inputs and the table of public calls."""
import hashlib, warnings
import numpy as np


def load():
    import opticomlib.devices as dv
    import opticomlib.ppm as ppm
    import opticomlib.ook as ook
    import opticomlib.utils as ut
    from opticomlib.typing import gv, binary_sequence, electrical_signal, optical_signal, eye
    return dv, ppm, ook, ut, gv, binary_sequence, electrical_signal, optical_signal, eye


def arrays_of(x, acc):
    from opticomlib.typing import binary_sequence, electrical_signal, eye
    if isinstance(x, np.ndarray):
        acc.append(x)
    elif isinstance(x, electrical_signal):
        acc.append(x.signal)
        if x.noise is not None:
            acc.append(x.noise)
    elif isinstance(x, binary_sequence):
        acc.append(x.data)
    elif isinstance(x, eye):
        for v in vars(x).values():
            arrays_of(v, acc)
    elif isinstance(x, (list, tuple)):
        for v in x:
            arrays_of(v, acc)
    elif isinstance(x, dict):
        for v in x.values():
            arrays_of(v, acc)
    return acc


def dig(x):
    from opticomlib.typing import binary_sequence, electrical_signal, eye
    h = hashlib.sha1()

    def upd(v):
        if isinstance(v, np.ndarray):
            h.update(str((v.dtype, v.shape)).encode()); h.update(np.ascontiguousarray(v).tobytes())
        elif isinstance(v, electrical_signal):
            h.update(type(v).__name__.encode()); h.update(str(getattr(v, "n_pol", None)).encode()); upd(v.signal); upd(v.noise)
        elif isinstance(v, binary_sequence):
            h.update(b"bs"); upd(v.data)
        elif isinstance(v, eye):
            for k in sorted(vars(v)):
                if k != "execution_time":
                    h.update(k.encode()); upd(getattr(v, k))
        elif isinstance(v, (list, tuple)):
            h.update(b"seq"); [upd(i) for i in v]
        elif isinstance(v, dict):
            for k in sorted(v):
                h.update(str(k).encode()); upd(v[k])
        else:
            h.update(repr(v).encode())
    upd(x)
    return h.hexdigest()


def gv_raw():
    from opticomlib.typing import gv
    # the process-wide state a later call can see: the gv singleton and numpy's floating-point error policy (np.seterr)
    return "gv" + dig({k: v for k, v in vars(gv).items()}) + "|err" + repr(sorted(np.geterr().items()))


def rng_raw():
    st = np.random.get_state()
    return "rng" + dig([st[1], st[2], st[3], st[4]])


def protect(x):
    for a in arrays_of(x, []):
        a.flags.writeable = False
    return x


def inputs():
    """shared, write-protected inputs; a deterministic function of the current gv"""
    dv, ppm, ook, ut, gv, binary_sequence, electrical_signal, optical_signal, eye = load()
    sps = gv.sps
    bits = protect(dv.PRBS(7, 64))
    x = protect(dv.DAC(bits, Vout=2.0, bias=0.5))
    t = protect(np.arange(64 * sps) * gv.dt)
    rs = np.random.RandomState(5)
    fld = (rs.randn(64 * sps) + 1j * rs.randn(64 * sps)) * 0.03
    o1 = protect(optical_signal(0.05 * np.exp(1j * 0.3 * np.arange(64 * sps) / sps) + 0 * fld, 0.1 * fld))
    o2 = protect(optical_signal(np.array([0.04 + fld, 0.5 * fld + 0.02j]), np.array([0.1 * fld, 0.05 * fld.conj()])))
    mod = protect(dv.MZM(optical_signal(np.ones(64 * sps) * 0.03), x, bias=2.5, Vpi=5.0))
    rx = protect(electrical_signal(x.signal * 0.01, 2e-4 * np.random.RandomState(11).randn(64 * sps)))
    ppmbits = protect(ppm.PPM_ENCODER(bits, 4))
    ppmwave = protect(dv.DAC(ppmbits))
    sl_ = np.random.RandomState(3).randint(0, 2, 64)
    sl_[8:12] = 0; sl_[20:24] = 0; sl_[40:44] = 1                       # erased symbols and a symbol with every slot ON (order 4)
    slots = protect(binary_sequence(sl_))
    st = np.random.get_state()
    np.random.seed(17)
    ey = dv.GET_EYE(rx, sps_resamp=32)
    np.random.set_state(st)
    long = protect(optical_signal(np.full(2 ** 17, 0.02 + 0.01j)))
    tlong = protect(np.arange(2 ** 17) * gv.dt)
    rl = np.random.RandomState(23)
    elong = protect(electrical_signal(rl.randn(2 ** 16) * 0.3))            # a long noise-free record (its extreme samples lie outside any 99.99 % interval)
    along = protect(rl.randn(2 ** 16) * 0.3)
    syncrx = protect(np.roll(np.tile(np.kron(bits.data, np.ones(sps)), 3), 7 * sps + 3).astype(float))
    return dict(bits=bits, x=x, t=t, o1=o1, o2=o2, mod=mod, rx=rx, ppmbits=ppmbits, ppmwave=ppmwave, slots=slots, eye=ey, syncrx=syncrx, long=long, tlong=tlong, elong=elong, along=along)


def funcs():
    dv, ppm, ook, ut, gv, binary_sequence, electrical_signal, optical_signal, eye = load()
    BW = 2e9          # absolute bandwidths: the same design parameters are met under different sampling rates
    F = {  # name -> (args builder, callable, weight)
        "PRBS": (lambda I: (9, 100, 5), lambda a: dv.PRBS(*a), 3),
        "DAC-nrz": (lambda I: (I["bits"],), lambda a: dv.DAC(a[0], 0.1, 1.5, "nrz"), 3),
        "DAC-rz": (lambda I: (I["bits"],), lambda a: dv.DAC(a[0], 0.2, 1.0, "rz"), 2),
        "DAC-gauss": (lambda I: (I["bits"],), lambda a: dv.DAC(a[0], 0.0, 1.0, "gaussian", m=2), 2),
        "DAC-bw": (lambda I: (I["bits"],), lambda a: dv.DAC(a[0], BW=0.75e9), 2),
        "LASER-cw": (lambda I: (I["t"],), lambda a: dv.LASER(a[0], 3.0, df=0.1e9), 2),
        "LASER-noisy": (lambda I: (I["t"],), lambda a: dv.LASER(a[0], 3.0, lw=1e6, rin=-150), 2),
        "PM": (lambda I: (I["o1"], I["x"].signal), lambda a: dv.PM(a[0], a[1], 4.0), 2),
        "MZM": (lambda I: (I["o2"], I["x"]), lambda a: dv.MZM(a[0], a[1], bias=1.0, Vpi=4.0, loss_dB=2, ER_dB=20, pol="y"), 3),
        "MZM-bw": (lambda I: (I["o1"], I["x"]), lambda a: dv.MZM(a[0], a[1], BW=BW), 2),
        "BPF": (lambda I: (I["o2"],), lambda a: dv.BPF(a[0], BW), 3),
        "EDFA": (lambda I: (I["o1"],), lambda a: dv.EDFA(a[0], 20, 5), 3),
        "EDFA-bw": (lambda I: (I["o2"],), lambda a: dv.EDFA(a[0], 15, 4, BW=BW), 2),
        "DM": (lambda I: (I["o2"],), lambda a: dv.DM(a[0], 30.0), 2),
        "DM-retH": (lambda I: (I["o1"],), lambda a: dv.DM(a[0], -20.0, True), 1),
        "FIBER-lin": (lambda I: (I["o2"],), lambda a: dv.FIBER(a[0], 10, 0.2, -20, 0.1, 0), 2),
        "FIBER-nl": (lambda I: (I["o2"],), lambda a: dv.FIBER(a[0], 5, 0.2, -20, 0.0, 2.0, 0.05), 1),
        "LPF": (lambda I: (I["rx"],), lambda a: dv.LPF(a[0], 0.7e9), 3),
        "LPF-array": (lambda I: (I["rx"].signal,), lambda a: dv.LPF(a[0], 0.7e9, retH=True), 1),
        "PD-all": (lambda I: (I["mod"],), lambda a: dv.PD(a[0], 1e9), 3),
        "PD-ase": (lambda I: (I["o2"],), lambda a: dv.PD(a[0], 1e9, include_noise="ase-only"), 2),
        "ADC": (lambda I: (I["rx"],), lambda a: dv.ADC(a[0], n=4), 2),
        "GET_EYE": (lambda I: (I["rx"],), lambda a: dv.GET_EYE(a[0], sps_resamp=32), 1),
        "SAMPLER": (lambda I: (I["rx"],), lambda a: dv.SAMPLER(a[0], gv.sps // 2), 2),
        "PPM_ENCODER": (lambda I: (I["bits"],), lambda a: ppm.PPM_ENCODER(a[0], 8), 2),
        "PPM_DECODER": (lambda I: (I["ppmbits"],), lambda a: ppm.PPM_DECODER(a[0], 4), 2),
        "HDD": (lambda I: (I["slots"],), lambda a: ppm.HDD(a[0], 4), 3),
        "SDD": (lambda I: (I["ppmwave"],), lambda a: ppm.SDD(a[0], 4), 2),
        "SDD-noisy": (lambda I: (I["rx"],), lambda a: ppm.SDD(a[0], 4), 2),
        "ppm.DSP-soft": (lambda I: (I["ppmwave"],), lambda a: ppm.DSP(a[0], 4, "soft"), 1),
        "ppm.DSP-hard": (lambda I: (I["ppmwave"],), lambda a: ppm.DSP(a[0], 4, "hard", threshold=0.5), 1),
        "ook.THRESHOLD_EST": (lambda I: (I["eye"],), lambda a: ook.THRESHOLD_EST(a[0]), 1),
        "ppm.THRESHOLD_EST": (lambda I: (I["eye"],), lambda a: ppm.THRESHOLD_EST(a[0], 4), 1),
        "ook.BER_counter": (lambda I: (I["bits"], I["slots"]), lambda a: ook.BER_analizer("counter", Tx=a[0], Rx=a[1]), 1),
        "ppm.BER_estimator": (lambda I: (I["eye"],), lambda a: ppm.BER_analizer("estimator", eye_obj=a[0], M=4), 1),
        "ook.theory_BER": (lambda I: (np.array([1.0, 2.0]),), lambda a: ook.theory_BER(a[0], 0.1, 0.2), 1),
        # long records (2^17 samples): the random devices must follow numpy's global seed whatever the record length
        "PD-long": (lambda I: (I["long"],), lambda a: dv.PD(a[0], 1e9), 1),
        "ADC-long": (lambda I: (I["elong"],), lambda a: dv.ADC(a[0], n=4), 1),
        "ADC-long-ndarray": (lambda I: (I["along"],), lambda a: dv.ADC(a[0], n=3, otype="n"), 1),
        "LPF-long": (lambda I: (I["elong"],), lambda a: dv.LPF(a[0], 2e9), 1),
        "EDFA-long": (lambda I: (I["long"],), lambda a: dv.EDFA(a[0], 10, 5), 1),
        "LASER-long": (lambda I: (I["tlong"],), lambda a: dv.LASER(a[0], 0.0, lw=1e5), 1),
        "FBG": (lambda I: (I["o1"],), lambda a: dv.FBG(a[0], fc=gv.f0, vdneff=1e-4, kL=2.0, print_params=False, retH=True), 1),
        "lab.SYNC": (lambda I: (I["syncrx"], I["bits"]), lambda a: __import__("opticomlib.lab", fromlist=["SYNC"]).SYNC(a[0], a[1].data, gv.sps), 1),
        "ook.DSP": (lambda I: (I["rx"],), lambda a: ook.DSP(a[0]), 1),
        "utils.mix": (lambda I: (I["rx"].signal,), lambda a: [ut.db(np.abs(a[0]) + 1), ut.Q(a[0]), ut.shortest_int(a[0], 50), ut.dec2bin(5, 4), ut.str2array("1,2;3,4")], 2),
        "utils.degenerate": (lambda I: (np.array([0.0, 1.0, 4.0]),), lambda a: [ut.db(a[0]), ut.dbm(a[0] * 0), float(np.max(ut.idb(a[0] * 1e4)))], 2),
        "utils.noise_variances": (lambda I: (-20.0,), lambda a: ut.noise_variances(a[0], "ppm", 4, 10, True, 1550e-9, 20, 5, 50e9), 1),
    }
    RANDOM = {"LASER-noisy", "EDFA", "EDFA-bw", "PD-all", "HDD", "GET_EYE", "ook.DSP", "PD-long", "EDFA-long", "LASER-long"}
    return F, RANDOM


def configure(sps, R, N):
    from opticomlib.typing import gv
    with warnings.catch_warnings():
        warnings.simplefilter("ignore")
        gv.clean()
        gv(sps=sps, R=R, N=N)
