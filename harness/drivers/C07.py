"""C07 - linear propagation (DM, FIBER gamma=0) is an exact all-pass, additive in length.
Spec: Channel.tla / MC_Channel.tla (phase lattice, replayed), ChannelTrace.tla (laws and energies off-lattice)."""
import random, math, warnings
import numpy as np
from ..core import deadline, import_repo, MachineryError
from ..behav import parse_ev

LEVEL = "model_checking"
INV = "INVARIANT EnergyPerBin\nINVARIANT GroupLaw\nINVARIANT LossAdds\nINVARIANT Inverse\nINVARIANT ShapeKept\nCHECK_DEADLOCK FALSE\n"


def run(ctx):
    ctx.rule = ("case = one chain of DM/FIBER calls replayed from a TLC state with the complete output spectrum compared, or one law/energy "
                "measurement judged by TLC; class = (ops kinds, N parity, layout, signs of m2/m3, loss, fs) resp. (law, length class, layout)")
    T = ctx.thorough
    ctx.tlc("MC_Channel", "SPECIFICATION Spec\n" + INV + "CONSTANTS Ns = {2,3,4,5,8,9%s}\n Ms <- MsSet\n LossVals = {0,10}\n MaxOps = %d\n" % (",16,17" if T else "", 2),
            note="all span histories on the phase lattice", timeout=3000, actions=["DM", "Fiber"])
    r = ctx.tlc("MC_Channel", "SPECIFICATION Spec\n" + INV + "INVARIANT Emit\nCONSTANTS Ns = {2,3,4,5,8,9}\n Ms <- MsSmall\n LossVals = {0,10}\n MaxOps = 2\n",
                workers=1, note="replayed histories", timeout=3000, count=False)
    ctx.exhaustive = True
    import_repo()
    from opticomlib.devices import DM, FIBER
    from opticomlib.typing import gv, optical_signal
    rnd = random.Random(ctx.seed)
    grids = [(16, 1e9), (8, 5e9)]

    def setfs(i):
        with warnings.catch_warnings():
            warnings.simplefilter("ignore")
            gv(sps=grids[i][0], R=grids[i][1])
        return gv.fs

    evs = parse_ev(r.out)
    for n_ev, ev in enumerate(evs):
        N, npol = ev["N"], ev["npol"]
        fs = setfs(n_ev % 2)
        if N % gv.sps == 0:
            with warnings.catch_warnings():
                warnings.simplefilter("ignore")
                gv(sps=gv.sps, R=gv.R, N=N // gv.sps)          # global grid of exactly the record's length in force
        X0 = np.array([[complex(*v) for v in row] for row in ev["X0"]])
        x = np.fft.ifft(X0, axis=-1)
        sig = optical_signal(x if npol == 2 else x[0])
        sig.signal.flags.writeable = False
        unit2 = N ** 2 / (4 * math.pi * fs ** 2) / 1e-24          # ps^2 per lattice unit
        unit3 = 6 * N ** 3 / (16 * math.pi ** 2 * fs ** 3) / 1e-36   # ps^3 per lattice unit
        cur = sig
        with deadline(60):
            for op in ev["ops"]:
                if op["op"] == "DM":
                    cur = DM(cur, op["m2"] * unit2)
                else:
                    L = rnd.choice([1.0, 2.5, 40.0])
                    cur = FIBER(cur, L, alpha=op["dB"] / L, beta_2=op["m2"] * unit2 / L, beta_3=op["m3"] * unit3 / L, gamma=0.0)
        want = np.array([[complex(*v) for v in row] for row in ev["X"]]) * 10 ** (-ev["loss"] / 20)
        got = np.fft.fft(np.atleast_2d(cur.signal), axis=-1)
        key = "lattice:" + "+".join(o["op"] for o in ev["ops"])
        ctx.case((key, N % 2, npol, tuple((o["m2"] > 0, o["m3"] > 0, o["dB"]) for o in ev["ops"]), n_ev % 2),
                 {"N": N, "npol": npol, "ops": ev["ops"], "fs": fs})
        ok_shape = isinstance(cur, optical_signal) and cur.n_pol == npol and len(cur) == N and got.shape == want.shape
        tol = 1e-9 + 2e-4 * ev["loss"] / 10
        if not ok_shape or not np.all(np.isfinite(got)) or np.max(np.abs(got - want)) > tol * max(1.0, np.max(np.abs(want))):
            err = float(np.max(np.abs(got - want))) if ok_shape else -1
            ctx.violation(key + (":shape" if not ok_shape else ":spectrum"), f"output spectrum differs from the lattice model (max err {err:.3g}) for ops {ev['ops']} N={N} npol={npol}",
                          {"event": ev, "fs": fs})
    ctx.behaviours += len(evs)
    # ------------------------------------------------------------------ laws off the lattice (E) and energies (T)
    events, meta = [], []

    def rel(a, b):
        a, b = np.asarray(a), np.asarray(b)
        if a.shape != b.shape or not np.all(np.isfinite(a)) or not np.all(np.isfinite(b)):
            return 10 ** 9
        r = float(np.max(np.abs(a - b)) / max(np.max(np.abs(b)), 1e-300)) * 1e12
        return int(min(10 ** 9, round(r / 1000))) if np.isfinite(r) else 10 ** 9

    def law(name, a, b, dB=0):
        events.append({"kind": "law", "name": name, "ppt": rel(a, b), "dB": int(math.ceil(dB))})
        meta.append(("law", name))

    for it in range(1000 if T else 60):
        fs = setfs(it % 2)
        n = rnd.choice([8, 9, 64, 125, 1024, 31, 2, 3, 16, 128])
        npol = rnd.choice([1, 2])
        rs = np.random.RandomState(it)
        x = (rs.randn(npol, n) + 1j * rs.randn(npol, n)) * [0.1, 1e-9, 30.0, 1e-13, 0.1][it % 5]         # ordinary, very weak and strong fields
        if npol == 2 and it % 7 in (0, 3):
            x[it % 7 // 3] = 0                                   # an empty x or y polarisation
        if it % 29 == 28:
            x[:] = 0                                             # a dark field
        if it % 8 == 7:
            x = x.real.copy() if it % 16 == 7 else np.round(x.real * 20 / max(np.abs(x).max(), 1e-300)).astype(np.int64)      # a field stored with a real / integer dtype
        if n % gv.sps == 0 and it % 3 == 0:
            with warnings.catch_warnings():
                warnings.simplefilter("ignore")
                gv(sps=gv.sps, R=gv.R, N=n // gv.sps)          # the global grid has exactly the record's length
        sig = optical_signal(x if npol == 2 else x[0])
        sig.signal.flags.writeable = False
        x = np.asarray(x, dtype=complex)
        sc = 1.0 / (fs * 1e-12) ** 2 * rnd.choice([0.01, 1, 30])        # ps^2 scale that matters at this fs
        D1, D2 = rnd.uniform(-1, 1) * sc, rnd.uniform(-1, 1) * sc
        with deadline(120):
            a = DM(DM(sig, D1), -D1)
            law("DM(-D)oDM(D)=id", a.signal, sig.signal)
            law("DM(D1)oDM(D2)=DM(D1+D2)", DM(DM(sig, D2), D1).signal, DM(sig, D1 + D2).signal)
            L = rnd.uniform(0.1, 80)
            L2 = rnd.uniform(0.1, 80)
            if it % 6 == 5:
                L, L2 = rnd.uniform(1e-4, 9e-4), rnd.uniform(1e-4, 6e-4)        # spans of centimetres to a metre (femtosecond-pulse set-ups)
            law("FIBER(L,b2)=DM(b2*L)", FIBER(sig, L, beta_2=D1 / L).signal, DM(sig, D1).signal)
            al, b2, b3 = rnd.choice([0, 0.2, 0.5]), rnd.uniform(-25, 25) * rnd.choice([0, 1, 1]), rnd.uniform(-0.2, 0.2) * rnd.choice([0, 1])
            if it % 6 == 5:
                b2, b3 = D2 / (L + L2), rnd.choice([0, 1]) * D2 * 1e-2 / (L + L2)           # dispersion that matters over such a span
            if it % 10 == 9:
                al = [2.0, 3.0, 1.5][(it // 10) % 3]                # a very lossy span: 100 .. 480 dB in total
            two = FIBER(FIBER(sig, L, al, b2, b3), L2, al, b2, b3)
            one = FIBER(sig, L + L2, al, b2, b3)
            law("two-spans=one-span", two.signal, one.signal, dB=al * (L + L2))
            out, H = DM(sig, D2, True)
            if np.asarray(H).shape != (n,):
                law("retH-is-the-applied-filter", np.zeros(1), np.ones(2))            # a response that is not on the record's own grid
            else:
                law("retH-is-the-applied-filter", out.signal, np.fft.ifft(np.fft.fft(sig.signal, axis=-1) * np.fft.ifftshift(H), axis=-1))
            if npol == 2:
                one_pol = optical_signal(x[0])
                law("1pol=row-of-2pol", FIBER(one_pol, L, al, b2, b3).signal, one.signal[0] if False else FIBER(optical_signal(np.array([x[0], 0 * x[0]])), L, al, b2, b3).signal[0], dB=al * L)
            for kind, o, dB in (("DM", DM(sig, D1), 0.0), ("FIBER", one, al * (L + L2))):
                ein = np.sum(np.abs(np.atleast_2d(sig.signal)) ** 2, axis=-1)
                eout = np.sum(np.abs(np.atleast_2d(o.signal)) ** 2, axis=-1)
                for p in range(npol):
                    if ein[p] == 0:
                        ppb = 0 if eout[p] == 0 else 10 ** 9                                  # nothing in, nothing out
                    else:
                        ratio = eout[p] / (ein[p] * 10 ** (-dB / 10))
                        ppb = int(min(10 ** 9, abs(ratio - 1) * 1e9)) if np.isfinite(ratio) else 10 ** 9
                    events.append({"kind": "energy", "what": kind, "ppb": ppb, "dB": int(math.ceil(dB))})
                    meta.append(("energy", kind))
                events.append({"kind": "shape", "same": bool(type(o) is optical_signal and o.n_pol == npol and len(o) == n and o.signal.shape == sig.signal.shape)})
                meta.append(("shape", kind))
        ctx.case(("laws", n % 2, n > 100, npol, it % 2, al > 0, b3 != 0, it % 5, bool(np.any(np.all(x == 0, axis=-1)))))
    # one long record (more than 2^16 samples), broadband, strongly dispersed: the filter is still the one of the record's own frequency grid
    fs = setfs(1)
    nlong = 2 ** 17 if T else 70001
    rs = np.random.RandomState(77)
    xl = (rs.randn(nlong) + 1j * rs.randn(nlong)) * 0.05
    sigl = optical_signal(xl)
    Dl = 3.0 / (fs * 1e-12) ** 2 * 40
    with deadline(300):
        law("FIBER(L,b2)=DM(b2*L)", FIBER(sigl, 50.0, beta_2=Dl / 50.0).signal, DM(sigl, Dl).signal)
        law("two-spans=one-span", FIBER(FIBER(sigl, 20.0, 0.0, Dl / 50.0), 30.0, 0.0, Dl / 50.0).signal, FIBER(sigl, 50.0, 0.0, Dl / 50.0).signal)
        wl_ = 2 * np.pi * np.fft.fftfreq(nlong) * fs * 1e-12
        law("lattice-output", DM(sigl, Dl).signal, np.fft.ifft(np.fft.fft(xl) * np.exp(-0.5j * Dl * wl_ ** 2)))
    ctx.case(("long-record", nlong))
    # the same samples and the same D / fibre parameters under several sampling rates in turn: the element acts on the grid in force at the call
    rs = np.random.RandomState(5150)
    for nn in (64, 125):
        xs = (rs.randn(nn) + 1j * rs.randn(nn)) * 0.1
        Ds = 30.0
        for sps_, R_ in ((16, 1e9), (8, 5e9), (16, 1e9), (32, 2.5e9), (4, 1e9)):
            with warnings.catch_warnings():
                warnings.simplefilter("ignore")
                gv(sps=sps_, R=R_)
            ws_ = 2 * np.pi * np.fft.fftfreq(nn) * gv.fs * 1e-12
            ref = np.fft.ifft(np.fft.fft(xs) * np.exp(-0.5j * Ds * ws_ ** 2))
            with deadline(120):
                o_, H_ = DM(optical_signal(xs), Ds, True)
                law("lattice-output", o_.signal, ref)
                law("retH-is-the-applied-filter", np.fft.ifftshift(np.asarray(H_)) if np.asarray(H_).shape == (nn,) else np.zeros(1), np.exp(-0.5j * Ds * ws_ ** 2))
                law("FIBER(L,b2)=DM(b2*L)", FIBER(optical_signal(xs), 10.0, 0.0, Ds / 10.0).signal, ref)
            ctx.case(("same-call-other-rate", nn, sps_))
    # the same object used again after its samples were edited in place: the element acts on the samples held now
    for it in range(4):
        fs = setfs(it % 2)
        rs = np.random.RandomState(900 + it)
        npol = 1 + it % 2
        xe = (rs.randn(npol, 96) + 1j * rs.randn(npol, 96)) * 0.1
        obj = optical_signal(xe if npol == 2 else xe[0])
        D1 = 30.0 / (fs * 1e-12) ** 2 * 1e-2
        with deadline(120):
            DM(obj, D1); FIBER(obj, 5.0, 0.1, D1 / 5.0)
            obj.signal *= 3
            obj.signal[..., ::2] = obj.signal[..., ::2] * 1j
            fresh = optical_signal(np.array(obj.signal))
            law("DM(D1)oDM(D2)=DM(D1+D2)", DM(obj, -2 * D1).signal, DM(fresh, -2 * D1).signal)
            law("FIBER(L,b2)=DM(b2*L)", FIBER(obj, 5.0, 0.0, D1 / 5.0).signal, DM(fresh, D1).signal)
        ctx.case(("edited-in-place", npol))
    # very lossy spans in each branch of FIBER (dispersionless closed form, second-order only, third-order only): power law and span additivity
    for it, (al, b2, b3, L, L2) in enumerate([(2.0, 0.0, 0.0, 75.0, 45.0), (1.5, 0.0, 0.0, 160.0, 160.0), (3.0, -20.0, 0.0, 60.0, 40.0), (2.5, 0.0, 0.3, 50.0, 70.0)]):
        fs = setfs(it % 2)
        rs = np.random.RandomState(4000 + it)
        x = (rs.randn(2, 64) + 1j * rs.randn(2, 64)) * 0.1
        sig = optical_signal(x if it % 2 else x[0])
        with deadline(120):
            one = FIBER(sig, L + L2, al, b2, b3)
            two = FIBER(FIBER(sig, L, al, b2, b3), L2, al, b2, b3)
        law("two-spans=one-span", two.signal, one.signal, dB=al * (L + L2))
        ein = np.sum(np.abs(np.atleast_2d(sig.signal)) ** 2, axis=-1)
        eout = np.sum(np.abs(np.atleast_2d(one.signal)) ** 2, axis=-1)
        for p in range(len(ein)):
            ratio = eout[p] / (ein[p] * 10 ** (-al * (L + L2) / 10))
            events.append({"kind": "energy", "what": "FIBER", "ppb": int(min(10 ** 9, abs(ratio - 1) * 1e9)) if np.isfinite(ratio) else 10 ** 9, "dB": int(math.ceil(al * (L + L2)))})
            meta.append(("energy", "FIBER"))
        ctx.case(("very-lossy", b2 != 0, b3 != 0, int(al * (L + L2))))
    gv.clean()
    for idx, clause in ctx.validate("ChannelTrace", events, note="laws/energies"):
        m = meta[idx - 1]
        ctx.violation(f"{m[0]}:{m[1]}:{clause}", f"{m} rejected: {events[idx - 1]}", {"event": events[idx - 1]})
