"""C10 - EDFA applies gain G to all of its input and adds ASE of the documented power.
Spec: Amplifier.tla (gain lattice model, replayed), Units.tla (ASE monomial, dimension checked), AmplifierTrace.tla."""
import random, math, warnings
import numpy as np
from scipy.constants import h as H_PLANCK
from ..core import deadline, import_repo, pollute_gv, fresh_repo
from ..behav import parse_ev
from ..rng_tap import tap, explain

LEVEL = "model_checking"


def run(ctx):
    ctx.rule = ("case = one EDFA call with numpy's RNG tapped (ASE realisation known), replayed from a TLC lattice state or random, judged by TLC; "
                "class = (layout in, noise in, dtype, G class, NF, BW, gv configuration); non-trivial = the call returned")
    T = ctx.thorough
    r = ctx.tlc("Amplifier", "SPECIFICATION Spec\nINVARIANT AlwaysTwoPol\nINVARIANT GainOnSignal\nINVARIANT GainOnNoise\nINVARIANT OSNRNeverImproves\n"
                "INVARIANT Emit\nCHECK_DEADLOCK FALSE\nCONSTANTS MaxLen = 2\n", workers=1, note="gain lattice: all inputs x G x ASE draws", actions=["Amplify"])
    ctx.exhaustive = True
    import_repo()
    from opticomlib.devices import EDFA, BPF
    from opticomlib.typing import gv, optical_signal, electrical_signal
    rnd = random.Random(ctx.seed)
    events, meta = [], []

    def rel(a, b):
        a, b = np.asarray(a), np.asarray(b)
        if a.shape != b.shape or not np.all(np.isfinite(a)) or not np.all(np.isfinite(b)):
            return 10 ** 9
        return int(min(10 ** 9, float(np.max(np.abs(a - b)) / max(np.max(np.abs(b)), 1e-300)) * 1e12))

    def one(sig, noise, G, NF, tag, dtype_k=0, obj=None):
        """run EDFA with the RNG tapped and record the observables of AmplifierTrace (obj: an existing signal object, e.g. the output of another amplifier)"""
        if obj is not None:
            sig, noise = np.asarray(obj.signal), (None if obj.noise is None else np.asarray(obj.noise))
        npol = 1 if sig.ndim == 1 else 2
        if obj is None and dtype_k == 1 and np.all(sig.imag == 0) and (noise is None or np.all(noise.imag == 0)):
            sig, noise = sig.real.astype(float), (None if noise is None else noise.real.astype(float))
        if obj is None and dtype_k == 2 and np.all(sig.imag == 0) and np.all(sig.real == np.round(sig.real)):
            sig = sig.real.astype(int)
        x = optical_signal(sig, noise) if obj is None else obj
        for a in (x.signal, x.noise):
            if a is not None:
                a.flags.writeable = False
        if obj is not None:
            sig, noise = np.asarray(sig, dtype=complex), (None if noise is None else np.asarray(noise, dtype=complex))
        with tap() as t, deadline(120):
            out = EDFA(x, G, NF)
        g = math.sqrt(10 ** (G / 10))
        n = sig.shape[-1]
        so = np.asarray(out.signal)
        ok_shape = type(out) is optical_signal and out.n_pol == 2 and so.shape == (2, n) and out.noise is not None and np.asarray(out.noise).shape == (2, n)
        if not ok_shape:
            events.append({"kind": "call", "npol_in": npol, "hasnoise": noise is not None, "npol_out": int(getattr(out, "n_pol", 0)), "len_ok": False, "sig_ppt": 0,
                           "ysig_zero": True, "noise_ppt": 0, "blocks": 0, "distinct": False, "var_ppm": 0, "band_ppm": 0, "osnr_ok": True, "statistical": False})
            meta.append(tag)
            return
        sin = np.atleast_2d(sig)
        sig_ppt = rel(so[:npol] + 1, g * sin + 1)
        ysig_zero = bool(npol == 2 or np.all(so[1] == 0))
        nin = np.zeros((2, n), dtype=complex)
        if noise is not None:
            nin[:npol] = np.atleast_2d(noise)
        ase = np.asarray(out.noise) - g * nin
        comps = [ase[0].real, ase[0].imag, ase[1].real, ase[1].imag]
        rows = t.rows()
        fits = [explain(c, rows) for c in comps]
        recognised = all(f[0] is not None and f[2] < 1e-9 for f in fits)
        expected = 0.25 * 10 ** (NF / 10) * H_PLANCK * gv.f0 * (10 ** (G / 10) - 1) * gv.fs     # Units!AseQuadrature at the call's parameters
        if recognised:
            noise_ppt = 0 if noise is None else rel(np.array([f[1] for f in fits]) * 0 + 1, np.ones(4))   # explained exactly => remainder is g*noise_in
            # what is not explained by the draws must be g*noise_in: residual of (out.noise - fitted ase) vs g*nin
            fitted = np.array([fits[0][1] * rows[fits[0][0]][0] + 1j * fits[1][1] * rows[fits[1][0]][0],
                               fits[2][1] * rows[fits[2][0]][0] + 1j * fits[3][1] * rows[fits[3][0]][0]])
            noise_ppt = rel(np.asarray(out.noise) - fitted + 1, g * nin + 1)
            sig2 = np.array([f[1] ** 2 for f in fits])
            var_ppm = int(min(10 ** 9, np.max(np.abs(sig2 / expected - 1)) * 1e6)) if expected > 0 else int(np.max(sig2) > 0) * 10 ** 9
            ev = {"blocks": len({f[0] for f in fits}), "distinct": len({f[0] for f in fits}) == 4, "var_ppm": var_ppm, "band_ppm": 0, "statistical": False}
        else:
            # draws not recognisable (legitimate refactoring of the generator): the statement's own statistical clause
            noise_ppt = 0
            # pooled over the four quadratures: 4n squared unit Gaussians; acceptance region = central chi-square interval with 1e-9 in each
            # tail (exact quantiles - the six-sigma normal approximation is badly off for the 32-sample lattice records)
            from scipy.stats import chi2
            dof = 4 * n
            v = float(sum(np.sum(c ** 2) for c in comps)) / (dof * expected) if expected > 0 else 1.0
            lo_q, hi_q = chi2.ppf(1e-9, dof) / dof, chi2.isf(1e-9, dof) / dof
            dev = (v - 1) / (hi_q - 1) if v >= 1 else (1 - v) / (1 - lo_q)
            ev = {"blocks": 0, "distinct": True, "var_ppm": int(min(10 ** 9, dev * 1e6)), "band_ppm": 10 ** 6, "statistical": True}
        S_in, N_in = float(np.sum(np.abs(sin) ** 2)), float(np.sum(np.abs(nin) ** 2))
        S_out, N_out = float(np.sum(np.abs(so) ** 2)), float(np.sum(np.abs(out.noise) ** 2))
        osnr_ok = True if N_in == 0 else (S_out * N_in <= S_in * N_out * (1 + 1e-9) or not recognised)
        if N_in > 0 and recognised:
            # with the realisation known: N_out = |g*nin + ase|^2 can dip below g^2 N_in for one draw; the statement is about powers,
            # so compare with the expected ASE power (cross term has zero mean): g^2 S / (g^2 N + A) <= S / N
            A = float(sum(f[1] ** 2 for f in fits)) * n
            osnr_ok = (g * g * S_in) * N_in <= S_in * (g * g * N_in + A) * (1 + 1e-9)
        events.append({"kind": "call", "npol_in": npol, "hasnoise": noise is not None, "npol_out": 2, "len_ok": True, "sig_ppt": sig_ppt,
                       "ysig_zero": ysig_zero, "noise_ppt": noise_ppt, "osnr_ok": bool(osnr_ok), **ev})
        meta.append(tag)

    def c(rows):
        return np.array([[complex(*v) for v in row] for row in rows])

    evs = parse_ev(r.out)
    for k, ev in enumerate(evs):
        with warnings.catch_warnings():
            warnings.simplefilter("ignore")
            gv(sps=[16, 8][k % 2], R=[1e9, 10e9][k % 2], wavelength=[1550e-9, 1310e-9][(k // 2) % 2])
        # the lattice pattern is repeated 8 times: a draw block can only be attributed to an ASE quadrature unambiguously
        # when the record has more than a couple of samples
        s = np.tile(c(ev["sig"]), (1, 8))
        nz = np.tile(c(ev["noise"]), (1, 8)) if ev["hasnoise"] else None
        if len(ev["sig"]) == 1:
            s, nz = s[0], (None if nz is None else nz[0])
        G = {1: 0.0, 10: 20.0, 100: 40.0}[ev["g"]]
        pollute_gv(gv, k % 2 == 1)               # user-defined globals (gv.BW, gv.G, gv.NF, ...) present on every other call
        np.random.seed(k)
        one(s, nz, G, [3.0, 5.0, 10.0][k % 3], ("lattice", len(ev["sig"]), ev["hasnoise"], G), dtype_k=k % 3)
        ctx.case(("lattice", len(ev["sig"]), ev["hasnoise"], G, k % 3, s.shape[-1]), {"sig": ev["sig"], "noise": ev["noise"], "G": G})
    ctx.behaviours += len(evs)
    for it in range(600 if T else 40):
        with warnings.catch_warnings():
            warnings.simplefilter("ignore")
            gv(sps=rnd.choice([4, 8, 16]), R=rnd.choice([1e9, 2.5e9, 10e9]), wavelength=rnd.choice([1550e-9, 1310e-9, 1064e-9]))
        n = rnd.choice([8, 9, 17, 256, 4096])
        npol = rnd.choice([1, 2])
        rs = np.random.RandomState(it)
        s = (rs.randn(npol, n) + 1j * rs.randn(npol, n)) * 1e-2
        noisy = rnd.random() < 0.6
        nz = (rs.randn(npol, n) + 1j * rs.randn(npol, n)) * 1e-4 if noisy else None
        if it % 4 == 0:
            s, nz = s.real + 0j, (None if nz is None else nz.real + 0j)
        if it % 6 == 1:                 # integer-valued samples stored with an integer dtype, arbitrary gain
            s = np.round(s.real * 500) + 0j
            nz = None if nz is None else np.round(nz.real * 5e4) + 0j
        if it % 5 == 3:
            with warnings.catch_warnings():
                warnings.simplefilter("ignore")
                gv(R=rnd.choice([4e9, 3e9]), fs=rnd.choice([10e9, 25e9]))          # fs/R not an integer: fs is what counts
        G, NF = rnd.uniform(0, 40) if it % 7 else 0.0, rnd.uniform(3, 10)
        pollute_gv(gv, it % 2 == 0)
        np.random.seed(1000 + it)
        one(s if npol == 2 else s[0], None if nz is None else (nz if npol == 2 else nz[0]), G, NF, ("random", npol, noisy, round(G)), dtype_k=2 if it % 6 == 1 else (1 if it % 4 == 0 else 0))
        ctx.case(("random", npol, noisy, int(G) // 10, it % 4 == 0, n > 100, it % 6 == 1, it % 5 == 3))
        if it % 9 == 1 and npol == 2 and noisy:
            # a two-polarisation input whose y signal is empty but whose y noise is not (e.g. the output of a previous EDFA)
            s2 = s.copy(); s2[1] = 0
            np.random.seed(2000 + it)
            one(s2, nz, G, NF, ("random-empty-y", npol, noisy, round(G)))
            ctx.case(("random-empty-y", int(G) // 10))
        if it % 3 == 0 and n >= 256:
            x = optical_signal(s if npol == 2 else s[0], None if nz is None else (nz if npol == 2 else nz[0]))
            BW = [0.2, 0.5, 0.7, 0.95][(it // 3) % 4] * gv.fs
            np.random.seed(5)
            a = EDFA(x, G, NF, BW)
            np.random.seed(5)
            b = BPF(EDFA(x, G, NF), BW)
            events.append({"kind": "bw", "ppt": max(rel(a.signal + 1, b.signal + 1), rel(a.noise + 1, b.noise + 1))})
            meta.append(("bw", npol))
            ctx.case(("bw", npol, noisy))
    # history independence: the ASE of a call may only depend on its arguments, the CURRENT gv and the RNG state.  The same call
    # is made after a different configuration, and by a freshly imported library instance that has seen nothing else.
    for it, (cfgA, cfgB) in enumerate([(dict(sps=16, R=1e9, wavelength=1550e-9), dict(sps=16, R=1e9, wavelength=1310e-9)),
                                       (dict(sps=8, R=10e9), dict(sps=16, R=10e9)), (dict(sps=8, R=2.5e9, wavelength=1064e-9), dict(sps=8, R=5e9, wavelength=1064e-9))]):
        xs = np.full(64, 0.01 + 0.02j)
        with warnings.catch_warnings():
            warnings.simplefilter("ignore")
            # the same bandwidth in hertz (and the same record length) under both configurations: nothing designed for the first rate may be reused
            bw_used = [4e9, 20e9, 5e9][it]
            gv(**cfgA); np.random.seed(3); EDFA(optical_signal(xs), 20, 5, bw_used)
            gv(**cfgB); np.random.seed(3); after = EDFA(optical_signal(xs), 20, 5, bw_used)
            with fresh_repo() as lib:
                lib["typing"].gv(**cfgB); np.random.seed(3)
                fresh = lib["devices"].EDFA(lib["typing"].optical_signal(xs), 20, 5, bw_used)
        events.append({"kind": "bw", "ppt": max(rel(after.signal + 1, fresh.signal + 1), rel(after.noise * 1e6 + 1, fresh.noise * 1e6 + 1))})
        meta.append(("history-independent", it))
        ctx.case(("history", it))
    for bad in (electrical_signal([1.0, 2.0]), np.ones(4), [1, 2, 3]):
        try:
            EDFA(bad, 10, 5)
            raised = "ok"
        except TypeError:
            raised = "TypeError"
        except Exception as e:
            raised = type(e).__name__
        events.append({"kind": "type", "raised": raised})
        meta.append(("type", type(bad).__name__))
        ctx.case(("type", type(bad).__name__), None, nontrivial=False)
        for kwcall in (lambda: EDFA(input=bad, G=10, NF=5), lambda: EDFA(bad, G=10, NF=5, BW=1e9)):       # the same verdict however the call is written
            try:
                kwcall()
                raised = "ok"
            except TypeError:
                raised = "TypeError"
            except Exception as e:
                raised = type(e).__name__
            events.append({"kind": "type", "raised": raised})
            meta.append(("type", type(bad).__name__ + "-keyword"))
    # amplifier chains: the second stage receives whatever object the first one returned (real-valued signal arrays with complex ASE included);
    # carriers set through gv.f0 rather than through the wavelength
    for it in range(24 if T else 6):
        with warnings.catch_warnings():
            warnings.simplefilter("ignore")
            gv(sps=8, R=10e9)
        if it % 2:
            gv.f0 = [196.1e12, 229e12, 191.3e12][it % 3]          # the carrier frequency is what the ASE formula reads
        rs = np.random.RandomState(6000 + it)
        n_ = [64, 129][it % 2]
        base_ = rs.randn(1 + (it // 2) % 2, n_) * 1e-2 + (0 if it % 3 else 1j * rs.randn(1 + (it // 2) % 2, n_) * 1e-2)
        base_ = base_.real.copy() if it % 3 == 0 else base_
        x0 = optical_signal(base_ if base_.shape[0] == 2 else base_[0])
        np.random.seed(300 + it)
        with deadline(60):
            y1 = EDFA(x0, 15.0, 5.0)
        np.random.seed(400 + it)
        one(None, None, 12.0, 6.0, ("chain", y1.n_pol, True, 12), obj=y1)
        ctx.case(("chain", it % 3 == 0, it % 2), None)
    # records of one, two and three samples (deterministic clauses only: a draw block cannot be attributed on so few samples)
    with warnings.catch_warnings():
        warnings.simplefilter("ignore")
        gv(sps=8, R=1e9)
    for n_ in (1, 2, 3):
        for npol_ in (1, 2):
            for noisy_ in (False, True):
                rs_ = np.random.RandomState(n_ * 7 + npol_)
                s_ = rs_.randn(npol_, n_) + 1j * rs_.randn(npol_, n_)
                nz_ = (rs_.randn(npol_, n_) + 0j) * 0.1 if noisy_ else None
                x_ = optical_signal(s_ if npol_ == 2 else s_[0], None if nz_ is None else (nz_ if npol_ == 2 else nz_[0]))
                np.random.seed(n_)
                with deadline(60):
                    o_ = EDFA(x_, 20.0, 5.0)
                so_ = np.asarray(o_.signal)
                want_ = np.zeros((2, n_), dtype=complex)
                want_[:npol_] = 10.0 * s_
                if not (type(o_) is optical_signal and o_.n_pol == 2 and so_.shape == (2, n_) and o_.noise is not None and np.asarray(o_.noise).shape == (2, n_)):
                    ctx.violation("tiny:layout", f"EDFA on a {npol_}-polarisation record of {n_} samples: output layout {so_.shape}", {"n": n_, "npol": npol_})
                elif not np.allclose(so_, want_, rtol=1e-12, atol=0):
                    ctx.violation("tiny:signal-part", f"EDFA on a {npol_}-polarisation record of {n_} samples: signal part is not sqrt(G) * input in the polarisations present "
                                  f"(max deviation {np.max(np.abs(so_ - want_)):.3g})", {"n": n_, "npol": npol_})
                ctx.case(("tiny", n_, npol_, noisy_), None)
    # freshly drawn: two calls in a row (no re-seeding, nothing else drawn in between) do not repeat the ASE
    xs_ = optical_signal(np.full(64, 0.01 + 0j))
    np.random.seed(77)
    with deadline(60):
        a1, a2 = EDFA(xs_, 20.0, 5.0).noise, EDFA(xs_, 20.0, 5.0).noise
        np.random.seed(77)
        a3 = EDFA(xs_, 20.0, 5.0).noise
    if np.array_equal(a1, a2):
        ctx.violation("ase-not-freshly-drawn", "two consecutive EDFA calls returned the same ASE realisation", {})
    if not np.array_equal(a1, a3):
        ctx.violation("ase-not-reproducible", "the same seed did not reproduce the ASE realisation", {})
    ctx.case(("consecutive-calls",), None)
    gv.clean()
    ctx.assumptions.append("ASE draws are observed by interposing numpy.random.randn/normal/standard_normal in the harness; if a refactoring draws "
                           "differently the check falls back to the statement's six-sigma band on the sample variance")
    for idx, clause in ctx.validate("AmplifierTrace", events, note="EDFA calls"):
        m = meta[idx - 1]
        ctx.violation(f"{m[0]}:{clause}", f"{m} rejected: {events[idx - 1]}", {"event": events[idx - 1], "case": m})
