"""C15 - binary_sequence is a closed, immutable-by-operation algebra.  Spec: BinSeq.tla (+PySlice), MC_BinSeq, BinSeqTrace."""
import itertools, random, hashlib
import numpy as np
from ..core import deadline, import_repo, MachineryError
from ..behav import parse_ev

LEVEL = "model_checking"
INVS = "INVARIANT Valid\nINVARIANT Laws\nINVARIANT RejectsNonBinary\nPROPERTY AppendOnly\nCHECK_DEADLOCK FALSE\n"
TOK = {0: 0, 1: 1, 2: 2, 3: -1, 4: 0.5, 5: "a"}


def cfg(maxheap, maxlit, pool, emit=True):
    return ("SPECIFICATION Spec\n" + INVS + ("INVARIANT Emit\n" if emit else "") +
            f"CONSTANTS MaxHeap = {maxheap}\n Tokens = {{0,1,2,3,4,5}}\n MaxLit = {maxlit}\n Pool <- {pool}\n")


def payload(form, lit):
    vals = [TOK[t] for t in lit]
    if form == "str":
        return "".join(str(v) for v in vals)
    if form == "strsep":
        return ",".join(str(v) for v in vals)
    if form == "list":
        return list(vals)
    if form == "tuple":
        return tuple(vals)
    if form == "ndarray":
        return np.array(vals)
    if form == "boollist":
        return [bool(v) for v in vals]
    raise MachineryError(form)


def opt(x):
    return None if len(x) == 0 else x[0]


def run(ctx):
    ctx.rule = ("case = one public binary_sequence call (or signal comparison) replayed from a TLC state or validated by TLC; "
                "class = (operation, container form, operand-length class, literal class, raised?); non-trivial = the call returned an object")
    T = ctx.thorough
    import_repo()
    from opticomlib.typing import binary_sequence, electrical_signal
    rnd = random.Random(ctx.seed)

    def mk(bits):
        o = binary_sequence(np.array(bits, dtype=np.uint8))
        o.data.flags.writeable = False
        return o

    def digest(o):
        return hashlib.sha1(o.data.tobytes()).hexdigest() + str(o.data.dtype) + str(o.data.shape)

    def check_obj(res, want, obs, key, ev):
        ok = isinstance(res, binary_sequence) and isinstance(res.data, np.ndarray) and res.data.ndim == 1 \
            and res.data.dtype == np.uint8 and [int(v) for v in res.data] == list(want)
        if not ok:
            ctx.violation(key + ":result", f"result {getattr(res, 'data', res)!r} != spec {want}", ev)
            return
        if obs and (len(res) != obs["len"] or int(res.ones()) != obs["ones"] or int(res.zeros()) != obs["zeros"] or res.len() != obs["len"]):
            ctx.violation(key + ":observers", "len/ones/zeros disagree with the spec", ev)

    nrep = [0]

    def replay(ev):
        nrep[0] += 1
        last, heap = ev["last"], ev["heap"]
        op, args, raised = last["op"], last["args"], last["raised"]
        if op == "init":
            return
        pre = heap if raised else heap[:-1]
        objs = [mk(b) for b in pre]
        before = [digest(o) for o in objs]
        key = f"{op}"
        try:
            with deadline(30):
                if op == "ctor":
                    key += ":" + args[0]
                    res = binary_sequence(payload(args[0], args[1]))
                elif op == "ctor2d":
                    row = [TOK[t] for t in args[0]]
                    res = binary_sequence([row, row])
                elif op == "concat":
                    res = objs[args[0] - 1] + objs[args[1] - 1]
                elif op == "concatlit":
                    key += ":" + args[1]
                    res = objs[args[0] - 1] + payload(args[1], args[2])
                elif op == "rconcatlit":
                    key += ":" + args[1]
                    res = payload(args[1], args[2]) + objs[args[0] - 1]
                elif op in ("concat2d", "rconcat2d"):
                    row = [TOK[t] for t in args[1]]
                    two = [row, row] if nrep[0] % 2 else np.array([row, row])
                    if op == "rconcat2d" and not isinstance(two, list):
                        two = [row, row]
                    res = (objs[args[0] - 1] + two) if op == "concat2d" else (two + objs[args[0] - 1])
                elif op == "invert":
                    res = ~objs[args[0] - 1]
                elif op == "slice":
                    res = objs[args[0] - 1][slice(opt(args[1]), opt(args[2]), opt(args[3]))]
                elif op == "index":
                    res = objs[args[0] - 1][args[1]]
                else:
                    raise MachineryError(f"unknown op {op}")
            got_raise = None
        except (ValueError, TypeError) as e:
            got_raise, res = type(e).__name__, None
        except MachineryError:
            raise
        except Exception as e:
            ctx.violation(key + ":" + type(e).__name__, f"unexpected exception {e!r}", ev)
            return
        litcls = "" if op not in ("ctor", "concatlit", "rconcatlit") else "".join(sorted({("b" if t < 2 else str(t)) for t in args[-1]}))
        ctx.case((op, key, litcls, raised, min(len(pre[args[0] - 1]) if op not in ("ctor", "ctor2d") else 0, 4)),
                 {"op": op, "args": args, "heap": pre, "raised": raised, "->": heap[-1] if not raised and heap else None},
                 nontrivial=not raised)
        if raised != (got_raise is not None):
            ctx.violation(key + (":should-raise" if raised else ":raised-" + str(got_raise)),
                          f"spec raised={raised}, implementation raised={got_raise}", ev)
            return
        if any(digest(o) != b for o, b in zip(objs, before)):
            ctx.violation(key + ":operand-modified", "an operand changed", ev)
        if not raised:
            check_obj(res, heap[-1], last["obs"], key, ev)
            if any(np.shares_memory(res.data, o.data) for o in objs):
                ctx.violation(key + ":aliasing", "result shares memory with an operand", ev)

    # ---- 1. model checking + replay of every state (binding R)
    runs = [("depth-1, every op and literal", cfg(2, 2, "PoolSmall"), None),
            ("laws on every string <= %d" % (8 if T else 6), cfg(2, 1, "PoolWide" if T else "PoolMid"), None)]
    for note, c, _ in runs:
        r = ctx.tlc("MC_BinSeq", c, workers=1, note=note, timeout=3000)
        evs = parse_ev(r.out)
        if len(evs) != r.distinct:
            raise MachineryError(f"{note}: parsed {len(evs)} states of {r.distinct}")
        for ev in evs:
            replay(ev)
        ctx.behaviours += len(evs)
    # (TLC's simulator evaluates invariants on every generated successor, so Emit cannot be used with -simulate;
    #  deep programs are instead executed below on the real class and validated event by event - binding T.)
    ctx.exhaustive = True
    # ---- 2. trace validation on domains beyond the model
    events, meta = [], []

    def bits(o):
        return [int(v) for v in o.data]

    forms = ["str", "strsep", "list", "tuple", "ndarray", "boollist", "binary_sequence"]
    strings = [list(b) for L in range(1, 13) for b in itertools.product([0, 1], repeat=L)]
    for n, b in enumerate(strings):
        a = mk(b)
        with deadline(30):
            inv = ~a
            events.append({"kind": "un", "bits": b, "inv": bits(inv), "inv2": bits(~inv), "len": len(a), "ones": int(a.ones()),
                           "zeros": int(a.zeros()), "invones": int(inv.ones())})
            meta.append(("un", len(b)))
            f = forms[n % 7]
            src = mk(b) if f == "binary_sequence" else payload(f, b)
            c = binary_sequence(src.data if f == "binary_sequence" else src)
            events.append({"kind": "ctor", "bits": b, "out": bits(c), "form": f})
            meta.append(("ctor", f))
        ctx.case(("un/ctor", f, min(len(b), 5)))
    longs = [[rnd.randrange(2) for _ in range(rnd.choice([13, 64, 257, 1000, 4099]))] for _ in range(60 if T else 15)]
    # counts beyond one byte: 255 / 256 / 257 / 300 / 1000 ones, alone and with zeros around
    for cnt1 in (255, 256, 257, 300, 512, 1000) + ((4096, 70000) if T else ()):
        for pad in (0, 44):
            b = [0] * pad + [1] * cnt1 + [0] * (pad // 2)
            rnd.shuffle(b)
            a = mk(b)
            with deadline(60):
                inv = ~a
                events.append({"kind": "un", "bits": b, "inv": bits(inv), "inv2": bits(~inv), "len": len(a), "ones": int(a.ones()),
                               "zeros": int(a.zeros()), "invones": int(inv.ones())})
                meta.append(("un", len(b)))
                inv_ = mk([1 - v for v in b])
                events.append({"kind": "un", "bits": bits(inv_), "inv": bits(~inv_), "inv2": bits(~~inv_), "len": len(inv_), "ones": int(inv_.ones()),
                               "zeros": int(inv_.zeros()), "invones": int((~inv_).ones())})
                meta.append(("un", len(b)))
            ctx.case(("un-long", cnt1, pad))
    pool = [s for s in strings if len(s) <= 6]
    pairs = [(a, b) for a in pool for b in pool] if T else [(a, b) for a in pool for b in pool if (len(a) + len(b)) % 3 == 0]
    pairs += [(a, b) for a in longs for b in rnd.sample(strings, 3)] + [(b, a) for a in longs[:5] for b in longs[:5]]
    # empty operands (accepted container forms that can be empty)
    pairs += [(a, []) for a in pool[:12]] + [(a, []) for a in longs[:3]]
    for n, (a, b) in enumerate(pairs):
        f = ["str", "list", "tuple", "boollist", "strsep", "ndarray", "ndarray-uint8", "ndarray-bool", "binary_sequence"][n % 9]
        if len(b) == 0 and f in ("str", "strsep"):
            f = "list"                                         # the empty string is not a bit string
        def lit(f_):
            if f_ == "binary_sequence":
                return mk(b)
            if f_.startswith("ndarray"):
                return np.array(b, dtype={"ndarray": np.int64, "ndarray-uint8": np.uint8, "ndarray-bool": bool}[f_])
            return payload(f_, b)
        A = mk(a)
        try:
            with deadline(30):
                out = A + (mk(b) if n % 2 else lit("ndarray" if n % 4 == 0 else f))
                rout = lit(f) + A
        except Exception as e:          # (an ndarray on the left makes numpy, not the library, raise: still the library's concatenation failing)
            ctx.violation(f"cat:raised:{f}", f"concatenation with a valid {f} operand raised {type(e).__name__}: {e}", {"a": a, "b": b, "form": f})
            continue
        events.append({"kind": "cat", "a": a, "b": b, "out": bits(out), "rout": bits(rout)})
        meta.append(("cat", f))
        for r_ in (out, rout):          # a new sequence every time, also when one operand is empty
            if r_ is A or not isinstance(r_, binary_sequence) or np.shares_memory(r_.data, A.data):
                ctx.violation("cat:aliasing", "a concatenation returned an operand itself or a sequence sharing its buffer", {"a": a, "b": b, "form": f})
        ctx.case(("cat", f, n % 2, min(len(a), 7) // 3, min(len(b), 7) // 3))
    for a in longs + rnd.sample(strings, 300 if T else 80):
        A = mk(a)
        n = len(a)
        for _ in range(6):
            s = [rnd.choice([None, 0, 1, -1, n, -n, n + 3, -n - 2, rnd.randrange(-n - 1, n + 2)]) for _ in range(2)] + \
                [rnd.choice([None, 1, 2, 3, -1, -2, 7, -5])]
            with deadline(30):
                out = A[slice(*s)]
            events.append({"kind": "sl", "a": a, "s": [[] if v is None else [v] for v in s], "out": bits(out)})
            meta.append(("sl", tuple(s)))
            ctx.case(("sl", s[0] is None, s[1] is None, s[2], min(n, 13) // 6))
    # random programs of depth <= 6 over +, ~, slicing (operands write-protected, hashed before/after)
    for _ in range(3000 if T else 500):
        objs = [mk(rnd.choice(strings)) for _ in range(2)]
        for step in range(6):
            before = [digest(o) for o in objs]
            k = rnd.randrange(3)
            a = rnd.choice(objs)
            with deadline(30):
                if k == 0:
                    b = rnd.choice(objs)
                    f = rnd.choice(["str", "list", "tuple"])
                    out = a + b
                    rout = payload(f, bits(b)) + a
                    events.append({"kind": "cat", "a": bits(a), "b": bits(b), "out": bits(out), "rout": bits(rout)})
                    res = [out, rout]
                elif k == 1:
                    inv = ~a
                    events.append({"kind": "un", "bits": bits(a), "inv": bits(inv), "inv2": bits(~inv), "len": len(a),
                                   "ones": int(a.ones()), "zeros": int(a.zeros()), "invones": int(inv.ones())})
                    res = [inv]
                else:
                    n = len(a)
                    s3 = [rnd.choice([None, 0, 1, -1, n // 2, rnd.randrange(-n - 1, n + 2)]) for _ in range(2)] + [rnd.choice([None, 1, 2, -1, -3])]
                    out = a[slice(*s3)]
                    events.append({"kind": "sl", "a": bits(a), "s": [[] if v is None else [v] for v in s3], "out": bits(out)})
                    res = [out]
            meta.append(("program", k))
            ctx.case(("program", step, k))
            if [digest(o) for o in objs] != before:
                ctx.violation("program:operand-modified", "an operand changed during a random program", {"event": events[-1]})
            for r_ in res:
                if not isinstance(r_, binary_sequence) or r_.data.dtype != np.uint8 or r_.data.ndim != 1 or \
                        any(np.shares_memory(r_.data, o.data) for o in objs):
                    ctx.violation("program:closure-or-aliasing", "result is not a fresh valid binary_sequence", {"event": events[-1]})
                elif len(r_) > 0 and len(r_) < 200:
                    r_.data.flags.writeable = False
                    objs.append(r_)
    # comparisons  (values are dyadic: logged multiplied by 64 as integers - the comparison is scale free)
    for _ in range(600 if T else 150):
        n = rnd.choice([1, 2, 5, 32, 257])
        intsig = rnd.random() < 0.4          # integer-dtype samples with a fractional threshold too
        sig = np.array([rnd.randrange(0, 10) for _ in range(n)]) if intsig else np.array([rnd.randrange(0, 640) for _ in range(n)]) / 64
        if intsig and rnd.random() < 0.5:      # raw counts: 8-bit codes up to 255, 64-bit counts of several 10^9
            sig = np.array([rnd.randrange(0, 256) for _ in range(n)], dtype=np.uint8)
        noise = (np.array([rnd.randrange(-1, 2) for _ in range(n)]) if intsig else np.array([rnd.randrange(-64, 64) for _ in range(n)]) / 64) if rnd.random() < 0.5 else None
        thr_arr = rnd.random() < 0.4
        thr = np.array([rnd.randrange(0, 640) for _ in range(n)]) / 64 if thr_arr else rnd.randrange(0, 640) / 64
        if intsig and rnd.random() < 0.5:
            thr = (sig + 0.5) if thr_arr else float(sig[0]) + 0.5
        if rnd.random() < 0.15:
            thr = sig[0] if not thr_arr else sig.copy()     # ties
        op = rnd.choice(["gt", "lt"])
        # small amplitudes (nA / pA scale: exact power-of-two factors) and thresholds a hair away from the samples
        K = 64
        if not intsig and rnd.random() < 0.5:
            if rnd.random() < 0.5:
                hair = 2.0 ** -26 * rnd.choice([1, -1])
                thr = (sig + hair) if thr_arr else float(sig[rnd.randrange(n)]) + hair
                thr = np.abs(thr) if thr_arr else abs(thr)
                K = 2 ** 26
            pw = rnd.choice([2.0 ** -30, 2.0 ** -40, 2.0 ** 20, 1.0, 2.0 ** -560, 2.0 ** 540, 2.0 ** -1000])       # down to 1e-301 and up to 1e+165
            logged = ([int(round(v * K)) for v in sig], [] if noise is None else [int(round(v * K)) for v in noise], [int(round(v * K)) for v in (thr if thr_arr else [thr])])
            sig, thr = sig * pw, thr * pw          # exact: powers of two
            noise = None if noise is None else noise * pw
        else:
            logged = None
        E = electrical_signal(sig, noise)
        for arr in (E.signal, E.noise):
            if arr is not None:
                arr.flags.writeable = False
        with deadline(30):
            out = (E > thr) if op == "gt" else (E < thr)
        ok = isinstance(out, binary_sequence) and out.data.dtype == np.uint8 and out.data.ndim == 1
        if not ok:
            ctx.violation("cmp:type", "comparison did not return a valid binary_sequence", {"sig": sig.tolist()})
            continue
        if logged is None:
            logged = ([int(round(v * K)) for v in sig], [] if noise is None else [int(round(v * K)) for v in noise], [int(round(v * K)) for v in (thr if thr_arr else [thr])])
        events.append({"kind": "cmp", "op": op, "sig": logged[0], "noise": logged[1], "thr": logged[2], "out": bits(out)})
        meta.append(("cmp", op))
        ctx.case(("cmp", op, noise is not None, thr_arr, min(n, 3), intsig))
        # complex / negative data: only closure is stated
        z = electrical_signal(sig * np.exp(1j * np.arange(n)) - 2, noise)
        with deadline(30):
            out = (z > thr) if op == "gt" else (z < thr)
        events.append({"kind": "cmpany", "n": n, "out": bits(out) if isinstance(out, binary_sequence) else [2]})
        meta.append(("cmpany", op))
        ctx.case(("cmpany", op, noise is not None, thr_arr))
    # the same signal object decided, edited (samples or noise re-assigned or overwritten in place - the documented idiom x.noise = ...) and decided
    # again: the decision follows the record held NOW
    rs_ = np.random.RandomState(ctx.seed % 1000 + 77)
    for case in range(16 if T else 8):
        n_ = [1, 2, 7, 16][case % 4]
        K = 64
        mk_ = lambda: rs_.randint(-200, 200, n_) / K
        sig_, noise_, thr_ = np.abs(mk_()) + 1.0, (rs_.randint(-50, 50, n_) / K), 1.0 + abs(float(mk_()[0]))
        E = electrical_signal(sig_.copy(), noise_.copy())
        with deadline(30):
            first = E > thr_
        events.append({"kind": "cmp", "op": "gt", "sig": [int(round(v * K)) for v in sig_], "noise": [int(round(v * K)) for v in noise_], "thr": [int(round(thr_ * K))], "out": bits(first)})
        meta.append(("cmp", "gt-before-edit"))
        sig2, noise2 = np.abs(mk_()) + 1.0, (rs_.randint(-50, 50, n_) / K)
        mode = case % 4
        if mode == 0:
            E.noise = noise2.copy(); cur = (sig_, noise2)
        elif mode == 1:
            E.signal = sig2.copy(); cur = (sig2, noise_)
        elif mode == 2:
            E.signal[:] = sig2; cur = (sig2, noise_)
        else:
            E.noise[:] = noise2; E.signal *= 2; cur = (sig_ * 2, noise2)
        for op in ("gt", "lt"):
            with deadline(30):
                out = (E > thr_) if op == "gt" else (E < thr_)
            events.append({"kind": "cmp", "op": op, "sig": [int(round(v * K)) for v in cur[0]], "noise": [int(round(v * K)) for v in cur[1]], "thr": [int(round(thr_ * K))],
                           "out": bits(out) if isinstance(out, binary_sequence) else [2]})
            meta.append(("cmp", op + "-after-edit-%d" % mode))
        ctx.case(("cmp-after-edit", mode, min(n_, 3)))
    # data that are not 1-D sequences of 0/1: the documented errors (ValueError / TypeError), whatever the shape of the offending input
    bad_inputs = [2, -1, 0.5, None, 1.5, [[0, 1], [1, 2]], "0 1; 1 2", [[0, 1], [1, 0]], np.array([[1, 0, 1]]), [0, 1, 2], "012", "0101\n", "01\t01", "1\r", "0\xa01",
                  "0b1", [0.5, 1], [1, None], np.array([0, 1, 3], dtype=np.uint8), [[[0]]], [-1, 1], np.array([1.0, 0.0, 1e-9]), {"a": 1}, "ab"]
    for bi_ in bad_inputs:
        try:
            with deadline(30):
                made = binary_sequence(bi_)
            outcome = "accepted:" + str(np.asarray(made.data).shape)
        except (ValueError, TypeError) as e_:
            outcome = type(e_).__name__
        except Exception as e_:
            outcome = "other:" + type(e_).__name__
        if outcome.startswith(("accepted", "other")):
            ctx.violation("ctor:invalid-input-not-rejected", f"binary_sequence({bi_!r}): {outcome} instead of ValueError/TypeError", {"input": repr(bi_)})
        a_ = mk([1, 0, 1])
        if isinstance(bi_, str):
            for form_ in ("a+s", "s+a"):
                try:
                    with deadline(30):
                        r_ = (a_ + bi_) if form_ == "a+s" else (bi_ + a_)
                    outcome = "accepted:" + str(len(r_))
                except (ValueError, TypeError) as e_:
                    outcome = type(e_).__name__
                except Exception as e_:
                    outcome = "other:" + type(e_).__name__
                if outcome.startswith(("accepted", "other")):
                    ctx.violation("cat:invalid-operand-not-rejected", f"{form_} with s = {bi_!r}: {outcome} instead of ValueError/TypeError", {"operand": repr(bi_)})
        ctx.case(("ctor-invalid", type(bi_).__name__), None, nontrivial=False)
    # 64-bit counts of several 10^9 (beyond TLC's integers: compared here with Python's exact integers)
    for _ in range(40 if T else 10):
        n = rnd.choice([1, 4, 33])
        vals = [rnd.randrange(0, 2 ** 33) for _ in range(n)]
        thr_i = rnd.choice(vals) + rnd.choice([-1, 0, 1, 12345])
        E = electrical_signal(np.array(vals, dtype=np.int64))
        for op in ("gt", "lt"):
            with deadline(30):
                out = (E > thr_i) if op == "gt" else (E < thr_i)
            want = [int(v > thr_i) if op == "gt" else int(v < thr_i) for v in vals]
            if not isinstance(out, binary_sequence) or bits(out) != want:
                ctx.violation("cmp:cmp-elementwise", f"comparison of 64-bit counts with {thr_i}: {bits(out) if isinstance(out, binary_sequence) else out} instead of {want}", {"sig": vals, "thr": thr_i, "op": op})
        ctx.case(("cmp-int64", n), None)
    # index keys that would add an axis or select through a 2-D index: rejected, or at any rate never an invalid (non 1-D) sequence
    for b in ([1, 0, 1, 1, 0, 0, 1, 0], [1], [0, 1, 1]):
        a = mk(b)
        for kname, key in (("None", None), ("slice,None", (slice(None), None)), ("...,None", (Ellipsis, None)), ("None,slice", (None, slice(None))),
                           ("2-D index", np.array([[0, 1], [2, 0]]) % len(b)), ("nested list", [[0, len(b) - 1, 0]]), ("bool mask", np.array(b, dtype=bool)),
                           ("int list", [0, len(b) - 1]), ("np.int64", np.int64(0)), ("negative", -1)):
            try:
                with deadline(30):
                    res = a[key]
                ok = isinstance(res, binary_sequence) and isinstance(res.data, np.ndarray) and res.data.ndim == 1 and res.data.dtype == np.uint8 \
                    and set(np.unique(res.data).tolist()) <= {0, 1} and not np.shares_memory(res.data, a.data)
                if not ok:
                    ctx.violation(f"index:{kname}:invalid-sequence", f"a[{kname}] returned an invalid sequence: data of shape {getattr(getattr(res, 'data', None), 'shape', None)}", {"bits": b, "key": kname})
            except (ValueError, TypeError, IndexError):
                pass
            ctx.case(("index-key", kname, len(b)), None, nontrivial=False)
    # thresholds of another length: rejected, or at any rate never a result of another length than the signal's
    for sl, tl in [(1, 4), (1, 2), (3, 4), (4, 3), (5, 2), (2, 257), (4, 1), (1, 1), (7, 7)]:
        for op in ("gt", "lt"):
            for kind in ("ndarray", "list", "electrical_signal"):
                E = electrical_signal(np.arange(sl) + 1.0)
                thr = np.arange(tl) * 1.0 + 0.5
                thr = thr.tolist() if kind == "list" else (electrical_signal(thr) if kind == "electrical_signal" else thr)
                try:
                    with deadline(30):
                        out = (E > thr) if op == "gt" else (E < thr)
                    rec = {"raised": "ok", "out": bits(out) if isinstance(out, binary_sequence) else [2]}
                except Exception as e:
                    rec = {"raised": type(e).__name__, "out": []}
                events.append({"kind": "cmplen", "n": sl, "m": tl, **rec})
                meta.append(("cmplen", op))
                ctx.case(("cmplen", op, kind, sl == tl, tl == 1, sl == 1), None, nontrivial=rec["raised"] == "ok")
    for idx, clause in ctx.validate("BinSeqTrace", events, note="binary_sequence events",
                                    env={"DUMMY": 1}):
        m = meta[idx - 1]
        ctx.violation(f"{m[0]}:{clause}", f"event {m} rejected: {clause}", {"event": events[idx - 1]})
