"""C19 - unit conversions, Q, number formatting and string parsing are self-consistent.
Spec: Text.tla, TextModel.tla (model + replay), TextTrace.tla, Sci.tla (Q table)."""
import random, re, warnings
from fractions import Fraction
import numpy as np
from ..core import deadline, import_repo, MachineryError
from ..behav import parse_ev
from ..sci import sci

LEVEL = "model_checking"


def run(ctx):
    ctx.rule = ("case = one utility call replayed from a TLC state (str2array on a rendered array) or validated by TLC (dec2bin, si, Q table, "
                "identities); class = (function, array shape/kind/style/dtype | d | decade,k | law, magnitude class); non-trivial = returned a value")
    T = ctx.thorough
    import_repo()
    import opticomlib.utils as ut
    rnd = random.Random(ctx.seed)
    r = ctx.tlc("TextModel", "SPECIFICATION Spec\nINVARIANT Dec2BinCorrect\nINVARIANT RenderLegal\nINVARIANT BitRuleIsTextual\nINVARIANT Emit\nCHECK_DEADLOCK FALSE\n"
                f"CONSTANTS MaxD = {16 if T else 12}\n MaxRows = 2\n MaxCols = {3 if T else 2}\n Alpha <- {'AlphabetSmall' if T else 'AlphabetFull'}\n", workers=1,
                note="dec2bin for every (v,d); every small array x style x dtype", timeout=6000)
    ctx.exhaustive = True

    def dec(x):
        f = Fraction(x["int"]) + (Fraction(int("".join(map(str, x["frac"]))), 10 ** len(x["frac"])) if x["frac"] else 0)
        return -f if x["neg"] else f

    DT = {"bool": bool, "int": int, "float": float, "complex": complex}
    evs = parse_ev(r.out)
    for ev in evs:
        text = "".join(ev["text"])
        dtype = DT[ev["dtype"][0]] if ev["dtype"] else None
        exp = ev["expect"]
        if exp["mode"] == "none":
            continue
        key = f"str2array:{exp['mode']}:{exp['kind']}:{ev['style']}:dtype={ev['dtype'][0] if ev['dtype'] else None}"
        try:
            with deadline(30):
                out = ut.str2array(text, dtype)
        except Exception as e:
            ctx.violation(key + ":" + type(e).__name__, f"str2array({text!r}, {dtype}) raised {e!r}", {"text": text})
            continue
        nrows = len(ev["arr"])
        if exp["mode"] == "bits":
            want = np.array(ev["bits"] if nrows > 1 else ev["bits"][0])
            kind_ok = out.dtype == bool
        else:
            vals = [[complex(dec(z["re"]), dec(z["im"])) if z["cplx"] else float(dec(z["re"])) for z in row] for row in ev["arr"]]
            want = np.array(vals if nrows > 1 else vals[0])
            kind_ok = {"int": np.issubdtype(out.dtype, np.integer), "float": np.issubdtype(out.dtype, np.floating),
                       "complex": np.issubdtype(out.dtype, np.complexfloating), "bool": out.dtype == bool}[exp["kind"]]
        ctx.case((key, nrows, len(ev["arr"][0])), {"str2array": [text, str(dtype)], "expect": exp})
        if out.shape != want.shape or not np.array_equal(out.astype(complex), want.astype(complex)) or not kind_ok:
            ctx.violation(key, f"str2array({text!r}, {dtype}) -> {out!r} (dtype {out.dtype}), spec expects {exp} {want!r}", {"text": text})
    ctx.behaviours += len(evs)
    for bad in ["1,2,a", "1e5", "3 4 x", "1,2;3,#", "0x10", "1_000"]:
        try:
            ut.str2array(bad)
            ctx.violation("str2array:bad-char-accepted", f"str2array({bad!r}) did not raise", {"text": bad})
        except ValueError:
            pass
        ctx.case(("str2array-bad", bad), None, nontrivial=False)
    # ------------------------------------------------------------------ trace events
    events, meta = [], []
    for d in range(1, (16 if T else 12) + 1):
        for v in list(range(2 ** d)) + [2 ** d, 2 ** d + 1, 2 ** (d + 3)]:
            try:
                with deadline(10):
                    out = ut.dec2bin(v, d)
                events.append({"kind": "dec2bin", "v": v, "d": d, "out": [int(b) for b in out], "raised": "ok"})
            except ValueError:
                events.append({"kind": "dec2bin", "v": v, "d": d, "out": [], "raised": "ValueError"})
            meta.append(("dec2bin", d))
            ctx.case(("dec2bin", d, v >= 2 ** d), {"dec2bin": [v, d]} if v == 5 else None, nontrivial=v < 2 ** d)
    pat = re.compile(r"^(\d+)(?:\.(\d+))? (f|p|n|μ|m|k|M|G|T)?Hz$")
    for e in range(-15, 15):
        for m in [1, 15, 25, 100, 999, 5, 10, 2] + [rnd.randrange(1, 1000) for _ in range(4 if T else 1)]:
            for k in (0, 1, 2):
                x = float(f"{m}e{e}")
                with deadline(10):
                    s = ut.si(x, "Hz", k)
                mm = pat.match(s) if isinstance(s, str) else None
                ok = bool(mm) and len(mm.group(2) or "") == k and len(mm.group(1)) <= 7     # (a longer mantissa cannot be in [1,1000))
                events.append({"kind": "si", "m": m, "e": e, "k": k, "pm": int(mm.group(1) + (mm.group(2) or "")) if ok else 0,
                               "prefix": ((mm.group(3) or "").replace("μ", "u")) if ok else "?", "wellformed": ok})
                meta.append(("si", e, m, k))
                ctx.case(("si", e, k, len(str(m))), {"si": [x, "Hz", k], "->": s})
    for k in range(9):
        events.append({"kind": "q", "k": k, "val": sci(ut.Q(k))})
        meta.append(("Q", k))
        ctx.case(("Q-table", k), {"Q": k, "->": float(ut.Q(k))})

    def ident(law, lhs, rhs, tol=3):
        events.append({"kind": "ident", "law": law, "lhs": sci(lhs), "rhs": sci(rhs), "tol": tol})
        meta.append(("ident", law))

    def order(law, a, b):
        events.append({"kind": "order", "law": law, "a": sci(a), "b": sci(b)})
        meta.append(("order", law))

    for i in range(3000 if T else 120):
        x = 10 ** rnd.uniform(-15, 15)
        y = 10 ** rnd.uniform(-7, 7)
        dB = rnd.uniform(-300, 300)
        if i % 3 == 0:           # the whole range of positive doubles / every real dB value that has a double as its ratio
            x = 10 ** rnd.uniform(-300, 300)
            dB = rnd.uniform(-3000, 3000)
        with deadline(10), warnings.catch_warnings():
            warnings.simplefilter("ignore")
            ident("idb(db(x))=x", ut.idb(ut.db(x)), x)
            ident("idbm(dbm(x))=x", ut.idbm(ut.dbm(x)), x)
            ident("db(idb(y))=y", ut.db(ut.idb(dB)) + 1000, dB + 1000)
            ident("dbm(idbm(y))=y", ut.dbm(ut.idbm(dB)) + 1000, dB + 1000)
            ident("db(x*y)=db(x)+db(y)", ut.db(x * y) + 1000, ut.db(x) + ut.db(y) + 1000)
            ident("dbm(x)=db(x)+30", ut.dbm(x) + 1000, ut.db(x) + 30 + 1000)
            arr = np.array([x, y, 1.0])
            ident("db-array-elementwise", float(ut.db(arr)[1]) + 1000, float(ut.db(y)) + 1000)
            ident("idb-list-elementwise", float(ut.idb([dB, 0.0])[0]), float(ut.idb(dB)))
            t = rnd.uniform(-6, 6)
            ident("Q(x)+Q(-x)=1", ut.Q(t) + ut.Q(-t), 1.0)
            t2 = t + rnd.uniform(1e-3, 2)
            order("Q-decreasing", ut.Q(t2), ut.Q(t))
            al, Tt = rnd.choice([0.1, 0.25, 0.5, 1.0]), rnd.choice([0.5, 1.0, 2.0, 4.0])
            u = rnd.uniform(-1.5, 1.5) / Tt
            rc = float(ut.rcos(u, al, Tt))
            ident("rcos-even", rc + 1, float(ut.rcos(-u, al, Tt)) + 1)
            order("rcos>=0", 1.0, rc + 1.0)
            order("rcos<=1", rc + 1.0, 2.0)
            ident("rcos(1/2T)=1/2", float(ut.rcos(1 / (2 * Tt), al, Tt)), 0.5)
            ident("rcos-zero-beyond", float(ut.rcos((1 + al) / (2 * Tt) * rnd.uniform(1.001, 3), al, Tt)) + 1, 1.0)
            ident("rcos-array", float(ut.rcos(np.array([u, 0.0]), al, Tt)[0]) + 1, rc + 1)
            # no roll-off: the rectangle, its edge 1/(2T) included (any value in [0,1] there, but a number)
            for u0 in (1 / (2 * Tt), -1 / (2 * Tt), 0.3 / Tt, 0.7 / Tt, np.array([1 / (2 * Tt), 0.0, 2 / Tt])):
                r0 = np.atleast_1d(ut.rcos(u0, 0, Tt)).astype(float)
                if not np.all(np.isfinite(r0)):
                    ctx.violation("rcos:alpha=0:not-a-number", f"rcos({u0!r}, 0, {Tt}) = {r0}", {"x": np.atleast_1d(u0).tolist(), "T": Tt})
                else:
                    order("rcos>=0", 1.0, float(r0.min()) + 1.0)
                    order("rcos<=1", float(r0.max()) + 1.0, 2.0)
            mu, sd = rnd.uniform(-3, 3), 10 ** rnd.uniform(-2, 2)
            if i % 3 == 1:
                mu, sd = 0.0, 10 ** rnd.uniform(-13, -3)          # picosecond pulses, nanovolt spreads
            grid = np.linspace(mu - 10 * sd, mu + 10 * sd, 20001)
            ident("gaus-integrates-to-1", float(np.sum(ut.gaus(grid, mu, sd)) * (grid[1] - grid[0])), 1.0, tol=100)
        ctx.case(("identities", int(np.log10(x)) // 5, int(dB) // 100))
    ident("Q(0)=1/2", ut.Q(0), 0.5)
    # dec2bin returns a fresh expansion every time (a caller may edit the word it got)
    for v_, d_ in ((5, 4), (0, 3), (255, 8), (1, 1), (300, 12), (1, 64), (2 ** 63, 64), (2 ** 63 - 1, 63), (2 ** 64 - 1, 64), (2 ** 70 + 5, 80), (1, 100), (3 ** 40, 65)):   # widths beyond 63 bits too
        w1 = ut.dec2bin(v_, d_)
        want_ = [int(c_) for c_ in format(v_, "b").zfill(d_)]
        w1[...] = 1 - np.asarray(w1)
        w2 = ut.dec2bin(v_, d_)
        if [int(b_) for b_ in np.asarray(w2).ravel()] != want_ or np.shares_memory(np.asarray(w1), np.asarray(w2)):
            ctx.violation("dec2bin:depends-on-earlier-calls", f"dec2bin({v_},{d_}) after the caller edited an earlier result: {np.asarray(w2).tolist()} instead of {want_}", {"v": v_, "d": d_})
        ctx.case(("dec2bin-twice", d_), None)
    # integers beyond 2^53 (and beyond TLC's integers: compared here with Python's exact integers): the text form is inverted exactly
    for vals_ in ([9007199254740993, -9007199254740995, 7], [2 ** 62 + 1, 2 ** 53 + 1], [[2 ** 60 + 3, 1], [5, -(2 ** 61) - 7]], [123456789012345678]):
        arr_ = np.array(vals_, dtype=np.int64)
        txt_ = ";".join(",".join(str(int(x_)) for x_ in row_) for row_ in np.atleast_2d(arr_)) if arr_.ndim == 2 else " ".join(str(int(x_)) for x_ in arr_)
        for dt_ in (None, int, np.int64):
            try:
                back_ = ut.str2array(txt_) if dt_ is None else ut.str2array(txt_, dt_)
                ok_ = np.asarray(back_).shape == arr_.shape and [int(x_) for x_ in np.asarray(back_).ravel()] == [int(x_) for x_ in arr_.ravel()]
            except Exception as e_:
                ok_, back_ = False, repr(e_)
            if not ok_:
                ctx.violation("str2array:large-integers", f"str2array({txt_!r}, {dt_}) = {back_!r}: not the integers written", {"text": txt_})
        ctx.case(("str2array-large-int", arr_.ndim), None)
    # array arguments are write-protected: a utility that works in place on its argument raises inside the library
    for fn_name in ("db", "dbm", "idb", "idbm", "Q", "gaus"):
        arr = np.array([0.5, 1.0, 20.0, 33.0])
        arr.flags.writeable = False
        keep = arr.copy()
        with deadline(10), warnings.catch_warnings():
            warnings.simplefilter("ignore")
            out1 = np.array(getattr(ut, fn_name)(arr), dtype=float)
            out2 = np.array(getattr(ut, fn_name)(arr), dtype=float)
        ident("array-argument-untouched:" + fn_name, float(np.sum(np.abs(arr - keep))) + 1, 1.0)
        ident("array-argument-untouched:" + fn_name, float(np.sum(np.abs(out1 - out2))) + 1, 1.0)
        ctx.case(("array-arg", fn_name))
    for fn in ("db", "dbm"):
        for val, neg in [(-1.0, True), ([1.0, -2.0], True), (2.0, False), ([1.0, 3.0], False), (np.array([0.5, -1e-9]), True),
                         (-1e-17, True), (-1e-300, True), (-5e-324, True), ([1.0, -1e-20], True), (np.array([[1.0, 2.0], [3.0, -2.2e-16]]), True), (-1, True),
                         (1e-300, False), ([5e-324, 1.0], False), (np.array([[1.0, 2.0], [3.0, 4.0]]), False)]:
            try:
                with warnings.catch_warnings():
                    warnings.simplefilter("ignore")
                    getattr(ut, fn)(val)
                raised = "ok"
            except ValueError:
                raised = "ValueError"
            except Exception as e:
                raised = type(e).__name__
            events.append({"kind": "verdict", "fn": fn, "neg": neg, "raised": raised})
            meta.append(("verdict", fn))
            ctx.case(("verdict", fn, neg), None, nontrivial=False)
    B = 50000
    for i in range(0, len(events), B):
        for idx, clause in ctx.validate("TextTrace", events[i:i + B], note="utility events", timeout=3000):
            m = meta[i + idx - 1]
            ctx.violation(f"{m[0]}:{clause}" + (f":e={m[1]}" if m[0] == "si" else ""), f"event {m} rejected: {clause}", {"event": events[i + idx - 1]})
