"""C03 - a noise-free link built from the library's blocks returns the transmitted bits.
Spec: Link.tla / MC_Link.tla (descriptor chain with inter-block interfaces, replayed), LinkTrace.tla."""
import random, math, warnings
import numpy as np
from ..core import deadline, import_repo, MachineryError, protect
from ..behav import parse_ev

LEVEL = "model_checking"


def run(ctx):
    ctx.rule = ("case = one complete link (bits -> DAC -> MZM -> optional DM/FIBER -> PD -> SAMPLER -> threshold) or packaged DSP run judged by TLC; "
                "class = (pulse shape, layout, bias slope, linear element, sps parity/size, pattern class, PPM order/decision)")
    T = ctx.thorough
    cfg = "SPECIFICATION Spec\nINVARIANT DecodedIsSent\nINVARIANT InterfaceOK\nPROPERTY Completes\nCHECK_DEADLOCK FALSE\n"
    ctx.tlc("MC_Link", cfg + "CONSTANTS MaxBits = %d\n SpsVals = {4,5,8}\n" % (7 if T else 6), note="every bit string with both symbols x every plan", timeout=3000,
            actions=["DAC", "MZM", "Linear", "PD", "Sample", "Decide"])
    r = ctx.tlc("MC_Link", "SPECIFICATION Spec\nINVARIANT DecodedIsSent\nINVARIANT InterfaceOK\nINVARIANT Emit\nCHECK_DEADLOCK FALSE\nCONSTANTS MaxBits = 5\n SpsVals = {4,5,8}\n",
                workers=1, note="replayed chains", count=False, timeout=3000)
    ctx.exhaustive = True
    import_repo()
    from opticomlib.devices import DAC, MZM, DM, FIBER, PD, SAMPLER, PRBS
    import opticomlib.ook as ook
    import opticomlib.ppm as ppm
    from opticomlib.typing import gv, optical_signal, electrical_signal, binary_sequence
    rnd = random.Random(ctx.seed)
    events, meta = [], []
    fib = [0]
    route = [0]
    warnings.filterwarnings("ignore")

    def desc(name, obj):
        cls = "E" if type(obj) is electrical_signal else ("O" if type(obj) is optical_signal else "?")
        return {"name": name, "cls": cls, "npol": int(getattr(obj, "n_pol", 1)) if cls == "O" else 1, "len": int(obj.len())}

    def chain(bits, sps, R, shape, npol, bias_on, linear, Vpi, loss, ER, Pw, r_, RL, BWrel, tag):
        n = len(bits)
        gv(sps=sps, R=R, **({"N": n} if rnd.random() < 0.4 else {}))       # sometimes with the slot count of this very record in force
        Vout = Vpi
        x = protect(DAC(protect(np.array(bits)), 0.0, Vout, shape, **({"T": sps, "m": 2} if (shape == "gaussian" and rnd.random() < 0.5) else {})))   # explicit or default width
        stages = [desc("DAC", x)]
        cw = np.full(n * sps, math.sqrt(Pw) * np.exp(0.7j))
        carrier = protect(optical_signal(cw if npol == 1 else np.array([cw, cw])))
        bias = 0.0 if bias_on else -Vpi            # u + bias in {0, Vpi}: theta in {0, pi/2} ("on": bit 0 -> full power) or {-pi/2, 0}
        o = protect(MZM(carrier, x, bias=bias, Vpi=Vpi, loss_dB=loss, ER_dB=ER, pol=rnd.choice(["x", "y"])))
        stages.append(desc("MZM", o))
        slot_ps2 = (1e12 / R) ** 2
        if linear == "DM":
            o = DM(o, rnd.choice([-1, 1]) * 0.009 * slot_ps2)
            stages.append(desc("DM", o))
        elif linear == "FIBER":
            L = rnd.uniform(1, 50)
            b2 = rnd.choice([-1, 1]) * 0.009 * slot_ps2 / L
            # lossy / lossless, dispersive / dispersionless (library defaults), int-typed zeros, third-order dispersion only
            kw = [dict(alpha=0.2, beta_2=b2, gamma=0.0), dict(alpha=0.0, beta_2=b2), dict(), dict(alpha=0, beta_2=0, beta_3=0, gamma=0), dict(alpha=0.2),
                  dict(alpha=1e-9, beta_2=b2), dict(alpha=0.1, beta_2=b2 / 2, beta_3=b2 * 1e-3)][fib[0] % 7]
            fib[0] += 1
            o = FIBER(o, L, **kw)
            stages.append(desc("FIBER", o))
        # every noise source switched off: through the selection (no thermal, no shot, no dark current), or by making each selected
        # source vanish (T = 0 K with 'thermal-only')
        route[0] += 1
        if route[0] % 3 == 2:
            y = protect(PD(protect(o), min(BWrel, 0.45 * sps) * R, r_, [0, 0.0][route[0] % 2], RL, "thermal-only", 0.0))
        else:
            y = protect(PD(protect(o), min(BWrel, 0.45 * sps) * R, r_, 300.0, RL, "ase-only", 0.0))      # receiver bandwidth >= 0.7 R and below Nyquist
        stages.append(desc("PD", y))
        s = SAMPLER(y, sps // 2)
        stages.append(desc("SAMPLER", s))
        v = np.asarray(s.signal).real + (0 if s.noise is None else np.asarray(s.noise).real)
        hi = v[[i for i, b in enumerate(bits) if (b == 0) == bias_on]]
        lo = v[[i for i, b in enumerate(bits) if (b == 0) != bias_on]]
        thr = (hi.mean() + lo.mean()) / 2              # midway between the received levels
        cmpb = s > thr
        dec = ~cmpb if bias_on else cmpb
        events.append({"kind": "chain", "sent": [int(b) for b in bits], "stages": stages, "nslots": n, "sps": sps, "npol": npol, "inv": bool(bias_on),
                       "high": [int(b) for b in cmpb.data], "decoded": [int(b) for b in dec.data], "eye_open": bool(hi.min() > lo.max())})
        meta.append(tag)

    # ---- 1. replay of the TLC chains (bit strings repeated to exceed the filter padding comfortably)
    evs = parse_ev(r.out)
    step = 1 if T else 5
    for k, ev in enumerate(evs[::step]):
        p = ev["plan"]
        bits = ev["sent"]
        rep = max(1, -(-24 // (len(bits) * p["sps"])))
        bits_r = bits * rep
        with deadline(120):
            chain(bits_r, p["sps"], rnd.choice([1e9, 10e9]), p["shape"], p["npol"], p["bias"] == "on", p["linear"], rnd.choice([3.0, 5.0]), rnd.choice([0, 3]),
                  rnd.choice([10, 20, 40]), 10 ** rnd.uniform(-4, -2), rnd.choice([1.0, 0.6]), 50.0, rnd.choice([0.7, 1.0, 2.0]),
                  ("replay", p["shape"], p["npol"], p["bias"], p["linear"], p["sps"]))
        ctx.case(("replay", p["shape"], p["npol"], p["bias"], p["linear"], p["sps"], len(bits)), {"bits": bits, "plan": p})
    ctx.behaviours += len(evs[::step])
    # ---- 2. random configurations over the statement's range
    for it in range(600 if T else 40):
        sps = rnd.choice([4, 5, 7, 8, 16, 17, 32, 33, 64])
        n = rnd.choice([8, 32, 100])
        kind = rnd.choice(["random", "prbs", "runs", "alt", "single1", "single0"])
        if kind == "random":
            bits = [rnd.randrange(2) for _ in range(n)]
        elif kind == "prbs":
            bits = [int(b) for b in PRBS(7, n, seed=rnd.randrange(1, 100)).data]
        elif kind == "runs":
            bits = ([0] * (n // 4) + [1] * (n // 2) + [0] * (n - n // 4 - n // 2))
        elif kind == "alt":
            bits = [i % 2 for i in range(n)]
        else:
            bits = [1 if kind == "single0" else 0] * n
            bits[rnd.randrange(2, n - 2)] = 0 if kind == "single0" else 1
        if min(bits) == max(bits):
            bits[0] = 1 - bits[0]
        shape = rnd.choice(["nrz", "nrz", "gaussian"]) if sps >= 8 else "nrz"
        with deadline(300):
            chain(bits, sps, rnd.choice([1e9, 2.5e9, 10e9]), shape, rnd.choice([1, 2]), rnd.random() < 0.5, rnd.choice(["none", "DM", "FIBER"]),
                  rnd.uniform(1, 8), rnd.choice([0, 1, 6]), rnd.choice([10, 13, 26, 40]), 10 ** rnd.uniform(-8, -1), rnd.uniform(0.2, 1.0),
                  10 ** rnd.uniform(1, 3), rnd.uniform(0.7, 3.0), ("random", kind, sps, shape))
        ctx.case(("random", kind, sps % 2, sps >= 16, shape))
    # ---- 3. packaged decision routines
    for it in range(40 if T else 8):
        sps = rnd.choice([8, 16, 32])
        gv(sps=sps, R=10e9)
        n = rnd.choice([32, 64, 127])
        bits = [int(b) for b in PRBS(7, n, seed=it + 3).data] if it % 2 else [rnd.randrange(2) for _ in range(n)]
        if min(bits) == max(bits):
            bits[0] = 1 - bits[0]
        x = DAC(bits, 0.0, 5.0)
        amp_ = [0.03, 1e-3, 0.03, 3e-4][it % 4]                     # carriers from 0 dBm down to -40 dBm (detected swings of tens of microvolts)
        o = MZM(optical_signal(np.full(n * sps, amp_ + 0j)), x, bias=-5.0, Vpi=5.0, ER_dB=20)
        wide_ = it % 4 == 2                                          # a wide photodiode followed by the decision routine's own filter
        y = PD(o, (3.0 if wide_ else 0.8) * 10e9, 1.0, 300.0, 50.0, "ase-only", 0.0)
        np.random.seed(it)
        with deadline(300):
            out, _, _ = ook.DSP(y, BW=0.6 * 10e9) if wide_ else ook.DSP(y)
        events.append({"kind": "dsp", "fn": "ook.DSP", "sent": bits, "decoded": [int(b) for b in out.data]})
        meta.append(("dsp", "ook", sps))
        ctx.case(("ook.DSP", sps, it % 2), {"ook.DSP": {"slots": n, "sps": sps}})
        # BER counter: 0 for the decoded data, k/n for k flips; Tx given as list / ndarray / binary_sequence
        k = rnd.randrange(0, 6)
        rxb = np.array(out.data).copy()
        idx = rnd.sample(range(n), k)
        rxb[idx] ^= 1
        for Tx in (bits, np.array(bits), binary_sequence(bits)):
            ber = ook.BER_analizer("counter", Tx=Tx, Rx=binary_sequence(rxb))
            events.append({"kind": "ber", "k": k, "n": n, "count": int(round(float(ber) * n)), "exact": bool(abs(float(ber) * n - round(float(ber) * n)) < 1e-6)})
            meta.append(("ber", "ook", type(Tx).__name__))
        # long sequences with many errors (counts beyond one byte), up to a fully inverted sequence
        nl = rnd.choice([1000, 2040, 4096])
        tx = np.random.RandomState(it).randint(0, 2, nl)
        for kk in (0, 255, 256, 300, 512, nl // 2, nl):
            rxl = tx.copy()
            rxl[np.random.RandomState(kk).permutation(nl)[:kk]] ^= 1
            for fn, tag in ((ook.BER_analizer, "ook"), (ppm.BER_analizer, "ppm")):
                ber = fn("counter", Tx=binary_sequence(tx), Rx=binary_sequence(rxl))
                events.append({"kind": "ber", "k": kk, "n": nl, "count": int(round(float(ber) * nl)), "exact": bool(abs(float(ber) * nl - round(float(ber) * nl)) < 1e-6)})
                meta.append(("ber", tag, "long"))
            ctx.case(("ber-long", kk >= 256, kk == nl))
        berp = ppm.BER_analizer("counter", Tx=bits, Rx=binary_sequence(rxb))
        events.append({"kind": "ber", "k": k, "n": n, "count": int(round(float(berp) * n)), "exact": bool(abs(float(berp) * n - round(float(berp) * n)) < 1e-6)})
        meta.append(("ber", "ppm", "list"))
    # the counter on two separately generated copies of the same pseudo-random pattern, k bits of one of them flipped in place
    for it in range(12 if T else 4):
        n = [96, 127, 64, 200][it % 4]
        tx, rx = PRBS(7, n, seed=11 + it), PRBS(7, n, seed=11 + it)
        k = [5, 1, 0, 17][it % 4]
        for j in rnd.sample(range(n), k):
            rx.data[j] ^= 1
        for nm, fn in (("ook", ook.BER_analizer), ("ppm", ppm.BER_analizer)):
            with deadline(60):
                b_ = float(fn("counter", Tx=tx, Rx=rx))
            events.append({"kind": "ber", "k": k, "n": n, "count": int(round(b_ * n)), "exact": bool(abs(b_ * n - round(b_ * n)) < 1e-6)})
            meta.append(("ber", nm, "regenerated-pattern"))
        ctx.case(("ber-regenerated", k > 0))
    for it in range(56 if T else 14):
        M = [2, 4, 8, 16, 256, 64, 512][it % 7]          # orders beyond one byte of symbol value included
        sps = rnd.choice([8, 16]) if it % 3 else 4
        if M >= 256:
            sps = 8 if it % 2 else 4
        gv(sps=sps, R=10e9)
        kbits = M.bit_length() - 1
        nsym = rnd.choice([16, 32]) if M < 256 else 24
        bits = [rnd.randrange(2) for _ in range(nsym * kbits)]
        code = ppm.PPM_ENCODER(bits, M)
        x = DAC(code, 0.0, 5.0, "gaussian" if it % 3 == 0 else "nrz")
        o = MZM(optical_signal(np.full(code.len() * sps, 0.03 + 0j)), x, bias=-5.0, Vpi=5.0, ER_dB=20)
        y = PD(o, 0.8 * 10e9, 1.0, 300.0, 50.0, "ase-only", 0.0)
        for dec in ("soft", "hard"):
            np.random.seed(it)
            with deadline(300):
                out = ppm.DSP(y, M, dec)
            events.append({"kind": "dsp", "fn": "ppm.DSP-" + dec, "sent": bits, "decoded": [int(b) for b in out.data]})
            meta.append(("dsp", "ppm-" + dec, M))
            ctx.case(("ppm.DSP", M, dec, sps), {"ppm.DSP": {"M": M, "decision": dec, "symbols": nsym, "sps": sps}})
    gv.clean()
    ctx.assumptions.append("received levels after the Bessel filter are checked as 'eye open at the slot centre', not as values; dispersion budget as stated "
                           "(|beta2 L| < 1 % of the squared slot period)")
    for idx, clause in ctx.validate("LinkTrace", events, note="link chains"):
        m = meta[idx - 1]
        e = events[idx - 1]
        small = {k: (v if not isinstance(v, list) or len(v) < 70 else v[:70]) for k, v in e.items()}
        ctx.violation(f"{m[0]}:{m[1]}:{clause}", f"{m} rejected ({clause})", {"event": small, "case": m})
