"""C08 - nonlinear FIBER conserves energy up to loss and converges to the NLSE solution.
Spec: FiberStep.tla (step controller incl. IEEE specials, safety + termination), FiberTrace.tla (controller traces via the tracer hook,
energies, exact solutions on lattices, self-convergence)."""
import random, math, warnings
import numpy as np
from ..core import deadline, import_repo, MachineryError, fresh_repo

LEVEL = "model_checking"


def run(ctx):
    ctx.rule = ("case = one FIBER call traced through the hook (controller steps, energy, finiteness) or one exact-solution / convergence measurement, "
                "judged by TLC; class = (kind, layout, leading zeros, dispersion signs, loss, gamma class, phi_max class)")
    T = ctx.thorough
    base = ("SPECIFICATION Spec\nINVARIANT StepsSumToLength\nINVARIANT FiniteSteps\nINVARIANT BoundedWork\nINVARIANT WithinFibre\nINVARIANT NeverBackward\n"
            "PROPERTY Terminates\nCHECK_DEADLOCK FALSE\n")
    ctx.tlc("FiberStep", base + ("CONSTANTS L = 24\n K = 96\n Peaks = {0,1,2,3,4,6,8,12,24,48,96}\n Guarded = TRUE\n Clamped = TRUE\n" if T else
                                 "CONSTANTS L = 12\n K = 48\n Peaks = {0,1,2,4,6,8,12,48}\n Guarded = TRUE\n Clamped = TRUE\n"), note="step controller: safety and termination", actions=["First", "Loop", "Last"])
    neg = ctx.tlc("FiberStep", base + "CONSTANTS L = 12\n K = 12\n Peaks = {0,1,2,3}\n Guarded = FALSE\n Clamped = TRUE\n", expect_ok=False, count=False,
                  note="negative control: unguarded controller (zero peak)")
    if not neg.violated:
        raise MachineryError("negative control of FiberStep did not fail: the controller model is vacuous")
    neg = ctx.tlc("FiberStep", base + "CONSTANTS L = 12\n K = 48\n Peaks = {1,2,4,48}\n Guarded = TRUE\n Clamped = FALSE\n", expect_ok=False, count=False,
                  note="negative control: unclamped controller (weak field: first step beyond the fibre end, negative last step)")
    if not ({"WithinFibre", "NeverBackward"} & set(neg.violated)):
        raise MachineryError("negative control of FiberStep (unclamped) did not fail: the controller model is vacuous")
    ctx.exhaustive = True
    import_repo()
    import opticomlib.devices as dv
    from opticomlib.devices import FIBER, DM
    from opticomlib.typing import gv, optical_signal
    rnd = random.Random(ctx.seed)
    events, meta = [], []

    def rel(a, b):
        a, b = np.asarray(a), np.asarray(b)
        if a.shape != b.shape or not np.all(np.isfinite(a)) or not np.all(np.isfinite(b)):
            return 10 ** 9
        return int(min(10 ** 9, float(np.max(np.abs(a - b)) / max(np.max(np.abs(b)), 1e-300)) * 1e12))

    def law(name, a, b):
        events.append({"kind": "law", "name": name, "ppt": rel(a, b)})
        meta.append(("law", name))

    def peak(A):
        return float((np.abs(np.atleast_2d(A)) ** 2).sum(axis=0).max())

    untraced = [0]

    def traced(x, **kw):
        log = []
        dv._verif_tracer = lambda kind, h, xl, A: log.append((kind, float(h), np.array(A, copy=True)))
        try:
            with deadline(90):
                out = FIBER(x, **kw)
        finally:
            dv._verif_tracer = None
        return out, log

    def setgv(i):
        with warnings.catch_warnings():
            warnings.simplefilter("ignore")
            gv(sps=[16, 32, 8][i % 3], R=[10e9, 10e9, 25e9][i % 3])

    # ------------------------------------------------------------------ traced random calls inside the statement's box
    for it in range(300 if T else 24):
        setgv(it)
        n = rnd.choice([255, 512, 1001])
        npol = 1 + it % 2
        lead0 = it % 3 == 0
        rs = np.random.RandomState(it)
        tt = np.arange(n) * gv.dt
        if it % 4 < 2:      # pulse train
            bits = rs.randint(0, 2, n // gv.sps + 1)
            env = np.kron(bits, np.ones(gv.sps))[:n].astype(float)
            k = np.exp(-np.linspace(-2, 2, gv.sps // 2) ** 2)
            env = np.convolve(env, k / k.sum(), "same")
            f = np.sqrt(rs.uniform(0.01, 0.5)) * env * np.exp(1j * 0.3 * rs.randn())
            fld = np.array([f, 0.5j * f[::-1]]) if npol == 2 else f
        else:               # random field
            f = (rs.randn(npol, n) + 1j * rs.randn(npol, n))
            f = np.fft.ifft(np.fft.fft(f, axis=-1) * np.exp(-(np.fft.fftfreq(n) * 12) ** 2), axis=-1)
            f = f / np.sqrt(peak(f)) * math.sqrt(rs.uniform(0.01, 0.5))
            fld = f if npol == 2 else f[0]
        fld = np.array(fld, dtype=complex)
        if lead0:
            fld[..., :5] = 0
        if npol == 2 and it % 8 == 3:
            fld[0] = 0                      # x polarisation empty, field in y only
        if it % 6 == 5:
            # weak signals: the unclamped adaptive step would be longer (by up to hundreds of orders of magnitude) than the fibre
            fld = fld * math.sqrt([1e-3, 1e-6, 1e-12, 1e-30, 1e-200][(it // 6) % 5] / peak(fld))
        if it % 24 == 22:
            fld = fld * 0                                   # a dark field
        if it % 8 == 6:
            fld = np.abs(fld) if npol == 1 else np.array([np.abs(fld[0]), -np.abs(fld[1])])       # a field stored as float64
        x = optical_signal(fld)
        x.signal.flags.writeable = False
        P = peak(fld)
        L = rnd.uniform(1, 100)
        gamma = min(rnd.uniform(0.2, 5), 10.0 / (max(P, 1e-300) * L))
        if it % 6 == 5:
            L, gamma = rnd.uniform(5, 30), rnd.uniform(0.5, 1.5)
        al, b2, b3 = rnd.choice([0, 0.2, 0.5]), rnd.uniform(-25, 25), rnd.uniform(-0.2, 0.2) * rnd.choice([0, 1])
        if it % 5 == 4:
            b2, b3 = 0.0, rnd.choice([-0.3, 0.2, 0.5])      # zero-dispersion wavelength: third-order dispersion only
        phi = rnd.choice([0.1, 0.05, 0.01] + ([5e-4] if T and gamma * P * L < 1 else []))
        out, log = traced(x, length=L, alpha=al, beta_2=b2, beta_3=b3, gamma=gamma, phi_max=phi)
        so = np.asarray(out.signal)
        events.append({"kind": "finite", "ok": bool(np.all(np.isfinite(so))), "shape_ok": bool(type(out) is optical_signal and out.n_pol == npol and so.shape == fld.shape)})
        meta.append(("finite", npol, lead0))
        ein, eout = np.sum(np.abs(np.atleast_2d(fld)) ** 2, axis=-1), np.sum(np.abs(np.atleast_2d(so)) ** 2, axis=-1)
        for p_ in range(npol):
            if ein[p_] == 0:
                ppb = 0 if eout[p_] <= 1e-30 * max(ein.max(), 1e-300) else 10 ** 9      # an empty polarisation stays empty
            else:
                ppb = int(min(10 ** 9, abs(eout[p_] / (ein[p_] * 10 ** (-al * L / 10)) - 1) * 1e9))
            events.append({"kind": "energy", "ppb": ppb, "dB": int(math.ceil(al * L))})
            meta.append(("energy", npol, lead0))
        # controller trace
        steps, prev, pmax = [], fld, P
        for kind, h, A in log:
            if kind == "start":
                continue
            want_h = L if peak(prev) == 0 else min(phi / (gamma * peak(prev)), L)        # the step the design prescribes from the field before it
            steps.append({"kind": kind, "hk_ppb": 0 if kind == "last" else int(min(10 ** 9, abs(h / want_h - 1) * 1e9)),
                          "over_ppb": int(min(10 ** 9, max(0.0, h / want_h - 1) * 1e9)), "forward": bool(h > 0),
                          "inside": bool(sum(hh for kk, hh, AA in log[:len(steps) + 2] if kk != "start") <= L * (1 + 1e-9))})
            prev = A
            pmax = max(pmax, peak(A))
        tot = sum(h for kind, h, A in log if kind != "start")
        if not log:
            # the call reported nothing through the hook (the hook is ours and optional: a library without it, or a closed-form path,
            # is not wrong for that) - the controller clauses are not observable for this call; energy, finiteness, exact solutions,
            # the reference integration and the convergence bounds still decide
            untraced[0] += 1
        else:
            events.append({"kind": "ctrl",     "steps": steps, "L_ppb": int(min(10 ** 9, abs(tot / L - 1) * 1e9)), "nsteps": len(steps),
                           "bound": int(math.ceil(gamma * pmax * L / phi)) + 2})
            meta.append(("ctrl", npol, lead0))
        ctx.case(("traced", npol, lead0, it % 4 < 2, b2 > 0, b3 != 0, al, phi), {"FIBER": dict(length=L, alpha=al, beta_2=b2, beta_3=b3, gamma=gamma, phi_max=phi), "n": n, "npol": npol, "steps": len(steps)})
        if npol == 1:
            two = FIBER(optical_signal(np.array([fld, 0 * fld])), L, al, b2, b3, gamma, phi)
            law("1pol=x-row-of-2pol-with-empty-y", so + 1, two.signal[0] + 1)
        if not np.iscomplexobj(fld):
            law("real-dtype-field=complex-dtype-field", so + 1, FIBER(optical_signal(fld.astype(complex)), L, al, b2, b3, gamma, phi).signal + 1)
    # ------------------------------------------------------------------ exact solutions
    setgv(0)
    for it in range(150 if T else 12):
        n = 512 if it % 2 else 511
        rs = np.random.RandomState(200 + it)
        P0 = rs.uniform(0.01, 0.4)
        levels = rs.randint(0, 4, n)                      # |in|^2 in {0, P0, 2P0, 3P0}
        fld = np.sqrt(levels * P0) * np.exp(1j * rs.uniform(0, 6.28, n))
        if it % 4 == 2:
            fld = np.sqrt(levels * P0) * np.where(rs.rand(n) < 0.5, 1.0, -1.0)         # the same kind of field stored as float64
        elif it % 4 == 3:
            P0, levels = 1.0, rs.choice([0, 1, 4], n)
            fld = np.sqrt(levels).astype(int) * np.where(rs.rand(n) < 0.5, 1, -1)       # ... and as integers (amplitudes 0, 1, 2 sqrt(W))
        m = rnd.choice([1, 2, 3, 5])
        L = rs.uniform(1, 80)
        gamma = (math.pi / 2) * m / (P0 * L)
        if gamma > 5:
            L = (math.pi / 2) * m / (P0 * 5); gamma = 5.0
        npol = 1 + it % 2
        x = optical_signal(fld if npol == 1 else np.array([fld, fld[::-1]]))
        with deadline(120):
            o = FIBER(x, L, 0.0, 0.0, 0.0, gamma)
        want = fld * (1j ** ((m * levels) % 4))
        law("SPM-lattice-j^m", np.atleast_2d(o.signal)[0] + 1, want + 1)
        al = rnd.choice([0.2, 0.5, 0.004, 0.0005])
        L1, L2 = L * 0.3, L * 0.7
        with deadline(120):
            law("SPM-closed-form-with-loss", FIBER(FIBER(x, L1, al, 0, 0, gamma), L2, al, 0, 0, gamma).signal + 1, FIBER(x, L, al, 0, 0, gamma).signal + 1)
            law("SPM-closed-form", FIBER(FIBER(x, L1, 0, 0, 0, gamma), L2, 0, 0, 0, gamma).signal + 1, o.signal + 1)
            # an input that also carries a noise record: the closed form is that of the signal's own power, the noise record is handed over
            nzr = (rs.randn(*np.shape(x.signal)) + 1j * rs.randn(*np.shape(x.signal))) * 0.3 * math.sqrt(P0)
            xn = optical_signal(np.array(x.signal), nzr)
            on = FIBER(xn, L, 0.0, 0.0, 0.0, gamma)
            law("SPM-closed-form", on.signal + 1, o.signal + 1)
            on2 = FIBER(xn, L, al, 0.0, 0.0, gamma)
            law("SPM-closed-form-with-loss", on2.signal + 1, FIBER(x, L, al, 0, 0, gamma).signal + 1)
            # a vanishing loss (alpha*L ~ 1e-10 .. 1e-14): L_eff -> L, the lattice solution must be reproduced
            law("SPM-lattice-j^m", np.atleast_2d(FIBER(x, L, [1e-12, 1e-15, 3e-11, 1e-13][it % 4], 0.0, 0.0, gamma).signal)[0] + 1, want + 1)
            law("linear-limit=DM", FIBER(x, L, 0.0, 7.5, 0.0, 0.0).signal + 1, DM(x, 7.5 * L).signal + 1)
        ctx.case(("spm", m, npol, al, str(fld.dtype)), {"SPM": {"gamma*P0*L": "(pi/2)*%d" % m, "L": L, "P0": P0}})
    # fundamental soliton: beta2*gamma > 0, P0 = beta2/(gamma T0^2), gamma P0 L / 2 = (pi/2) m  =>  out = j^m * in
    with warnings.catch_warnings():
        warnings.simplefilter("ignore")
        gv(sps=64, R=10e9)
    n = 1024
    tt = (np.arange(n) - n / 2) * gv.dt * 1e12       # ps
    for (b2, T0, g, m) in ([(20.0, 10.0, 2.0, 1), (10.0, 8.0, 1.3, 2)] + ([(25.0, 12.0, 5.0, 1)] if T else [])):
        P0 = b2 / (g * T0 ** 2)
        L = math.pi * m / (g * P0)
        fld = np.sqrt(P0) / np.cosh(tt / T0)
        errs = {}
        for phi in ([0.1, 0.05, 0.0125] + ([0.003] if T else [])):
            for npol in (1, 2):
                x = optical_signal(fld + 0j if npol == 1 else np.array([fld + 0j, 0j * fld]))
                with deadline(600):
                    o = FIBER(x, L, 0.0, b2, 0.0, g, phi)
                e = float(np.max(np.abs(np.atleast_2d(o.signal)[0] - (1j ** m) * fld)) / np.max(np.abs(fld)))
                events.append({"kind": "conv", "name": "fundamental-soliton-error<=C*phi_max", "err_ppm": int(min(10 ** 9, e * 1e6)), "phi_ppm": int(phi * 1e6)})
                meta.append(("conv", "soliton", phi))
                errs[(phi, npol)] = e
                ctx.case(("soliton", m, phi, npol), {"soliton": {"beta2": b2, "T0_ps": T0, "gamma": g, "m": m, "phi_max": phi, "rel_err": e}})
        events.append({"kind": "order", "name": "soliton-error-shrinks-with-phi_max", "coarse_ppm": int(errs[(0.1, 1)] * 1e6), "fine_ppm": int(errs[(0.0125, 1)] * 1e6), "factor": 8})
        meta.append(("order", "soliton"))
    # a long soliton (total nonlinear phase 14 pi): tens of thousands of steps at phi_max = 1e-3 - the error must keep shrinking with phi_max
    b2, T0, g, m = 20.0, 10.0, 2.0, 14
    P0 = b2 / (g * T0 ** 2)
    L = math.pi * m / (g * P0)
    fld = np.sqrt(P0) / np.cosh(tt / T0)
    errs = {}
    for phi in (4e-3, 1e-3):
        with deadline(900):
            o = FIBER(optical_signal(fld + 0j), L, 0.0, b2, 0.0, g, phi)
        errs[phi] = float(np.max(np.abs(o.signal - (1j ** m) * fld)) / np.max(np.abs(fld)))
        events.append({"kind": "conv", "name": "fundamental-soliton-error<=C*phi_max", "err_ppm": int(min(10 ** 9, errs[phi] * 1e6)), "phi_ppm": int(phi * 1e6)})
        meta.append(("conv", "long-soliton", phi))
    events.append({"kind": "order", "name": "soliton-error-shrinks-with-phi_max", "coarse_ppm": int(errs[4e-3] * 1e6), "fine_ppm": int(errs[1e-3] * 1e6), "factor": 4})
    meta.append(("order", "long-soliton"))
    ctx.case(("long-soliton", m), {"long soliton": {"total nonlinear phase": "14 pi", "rel_err": errs}})
    # convergence against an independent fixed-step reference integration of the same equation (symmetric split step, 4000 equal steps:
    # its own error is O(1/steps^2), far below the bounds judged), in the regimes the adaptive controller distinguishes
    def reference(f, L, al_dB, b2, b3, g, steps=4000):
        w = 2 * math.pi * np.fft.fftfreq(f.shape[-1]) * gv.fs * 1e-12
        h = L / steps
        lin = np.exp((-(al_dB / 4.343) / 2 - 0.5j * b2 * w ** 2 - 1j / 6 * b3 * w ** 3) * h)
        A = np.array(f, dtype=complex)
        for _ in range(steps):
            A = A * np.exp(1j * g * (h / 2) * np.abs(A) ** 2)
            A = np.fft.ifft(lin * np.fft.fft(A, axis=-1), axis=-1)
            A = A * np.exp(1j * g * (h / 2) * np.abs(A) ** 2)
        return A
    setgv(1)
    regimes = [(-20.0, 0.1), (0.0, 0.4), (15.0, 0.0), (0.0, -0.3)] + ([(-5.0, -0.2), (25.0, 0.3)] if T else [])
    for it, (b2, b3) in enumerate(regimes):
        rs = np.random.RandomState(700 + it)
        n = 512
        f = rs.randn(n) + 1j * rs.randn(n)
        f = np.fft.ifft(np.fft.fft(f) * np.exp(-(np.fft.fftfreq(n) * 14) ** 2))
        f = f / np.sqrt(peak(f)) * math.sqrt(0.2)
        L, al, g = 30.0, [0.2, 0.0][it % 2], 1.2
        npol = 1 + it % 2
        fld = f if npol == 1 else np.array([f, 0.5 * f[::-1]])
        ref = reference(fld, L, al, b2, b3, g)
        errs = {}
        for phi in (0.08, 0.01):
            with deadline(600):
                o = FIBER(optical_signal(fld), L, al, b2, b3, g, phi).signal
            errs[phi] = float(np.max(np.abs(o - ref)) / np.max(np.abs(ref))) if np.all(np.isfinite(o)) else 1e3
            events.append({"kind": "conv", "name": "reference-integration-error<=C*phi_max", "err_ppm": int(min(10 ** 9, errs[phi] * 1e6)), "phi_ppm": int(phi * 1e6)})
            meta.append(("conv", "reference", phi))
        ctx.case(("reference", b2 != 0, b3 != 0, npol, al > 0), {"reference-integration": {"beta_2": b2, "beta_3": b3, "errors": errs}})
    # constant-envelope inputs (phase-modulated carrier, offset tone): |A|^2 is flat at the input, dispersion turns phase into amplitude
    for it, kind_ in enumerate(["pm", "tone", "pm2pol"]):
        n = 512
        tgrid = np.arange(n) / n
        if kind_ == "tone":
            f = math.sqrt(0.1) * np.exp(2j * math.pi * 9 * tgrid)
        else:
            f = math.sqrt(0.1) * np.exp(1.7j * np.sin(2 * math.pi * 5 * tgrid) + 0.4j * np.sin(2 * math.pi * 23 * tgrid))
        fld = f if kind_ != "pm2pol" else np.array([f, f.conj()])
        L, al, b2, b3, g = 25.0, 0.2, [-20.0, 15.0, -10.0][it], [0.0, 0.2, 0.1][it], 1.5
        ref = reference(fld, L, al, b2, b3, g)
        lin = reference(fld, L, al, b2, b3, 0.0, steps=1)
        with deadline(600):
            law("linear-limit=DM", FIBER(optical_signal(fld), L, al, b2, b3, 0.0).signal + 1, lin + 1)
            for phi in (0.05, 0.01):
                o = FIBER(optical_signal(fld), L, al, b2, b3, g, phi).signal
                e = float(np.max(np.abs(o - ref)) / np.max(np.abs(ref))) if np.all(np.isfinite(o)) else 1e3
                events.append({"kind": "conv", "name": "reference-integration-error<=C*phi_max", "err_ppm": int(min(10 ** 9, e * 1e6)), "phi_ppm": int(phi * 1e6)})
                meta.append(("conv", "reference-constant-envelope", phi))
        ctx.case(("reference-constant-envelope", kind_), {"constant-envelope input": kind_})
    # self-convergence on general inputs
    setgv(1)
    for it in range(20 if T else 3):
        rs = np.random.RandomState(300 + it)
        n = 512
        f = rs.randn(n) + 1j * rs.randn(n)
        f = np.fft.ifft(np.fft.fft(f) * np.exp(-(np.fft.fftfreq(n) * 14) ** 2))
        f = f / np.sqrt(peak(f)) * math.sqrt(0.2)
        x = optical_signal(f)
        L, al, b2, b3, g = 40.0, 0.2, rnd.choice([-20.0, 15.0]), 0.1, 1.0
        outs = {}
        for phi in (0.08, 0.04, 0.02, 0.01, 0.0025):
            with deadline(600):
                outs[phi] = FIBER(x, L, al, b2, b3, g, phi).signal
        ref = outs[0.0025]
        sc = np.max(np.abs(ref))
        d = {phi: float(np.max(np.abs(outs[phi] - ref)) / sc) for phi in (0.08, 0.04, 0.02, 0.01)}
        for phi, e in d.items():
            events.append({"kind": "conv", "name": "self-convergence-error<=C*phi_max", "err_ppm": int(min(10 ** 9, e * 1e6)), "phi_ppm": int(phi * 1e6)})
            meta.append(("conv", "self", phi))
        events.append({"kind": "order", "name": "self-convergence-shrinks", "coarse_ppm": int(d[0.08] * 1e6), "fine_ppm": int(d[0.01] * 1e6), "factor": 8})
        meta.append(("order", "self"))
        ctx.case(("selfconv", b2 > 0), {"self-convergence": d})
    # history independence: the same fibre and record length under another sampling rate before
    for it, (cfgA, cfgB) in enumerate([(dict(sps=16, R=10e9), dict(sps=32, R=10e9)), (dict(sps=8, R=25e9), dict(sps=16, R=10e9))]):
        rs = np.random.RandomState(400 + it)
        f = (rs.randn(256) + 1j * rs.randn(256)) * 0.1
        kw = dict(length=20.0, alpha=0.2, beta_2=-20.0, beta_3=0.1, gamma=1.5, phi_max=0.05)
        with warnings.catch_warnings():
            warnings.simplefilter("ignore")
            gv(**cfgA); FIBER(optical_signal(f), **kw)
            gv(**cfgB); after = FIBER(optical_signal(f), **kw).signal
            with fresh_repo() as lib:
                lib["typing"].gv(**cfgB)
                fresh = lib["devices"].FIBER(lib["typing"].optical_signal(f), **kw).signal
        law("result-independent-of-call-history", after + 1, fresh + 1)
        ctx.case(("history", it))
    gv.clean()
    if untraced[0]:
        ctx.assumptions.append(f"{untraced[0]} FIBER calls reported no steps through the tracer hook: the controller clauses were not observable for them")
    ctx.assumptions.append("convergence to the NLSE is decided against exact solutions the lattices provide (SPM with gamma*P0*L=(pi/2)m, fundamental soliton "
                           "for beta2*gamma>0: out=j^m*in, linear limit = DM) plus conservation and self-convergence; no independent numerical reference solver")
    for idx, clause in ctx.validate("FiberTrace", events, note="FIBER traces and measurements"):
        m_ = meta[idx - 1]
        ev = events[idx - 1]
        ctx.violation(f"{m_[0]}:{clause}", f"{m_} rejected: { {k: v for k, v in ev.items() if k != 'steps'} }", {"event": ev, "case": m_})
