"""C05 - DAC waveforms are slot-exact and SAMPLER inverts them.  Spec: DacSampler.tla, DacModel.tla, DacTrace.tla."""
import itertools, random, warnings
import numpy as np
from ..core import deadline, import_repo, protect

LEVEL = "model_checking"


def run(ctx):
    ctx.rule = ("case = one DAC / SAMPLER call (or DAC+SAMPLER+decision chain) validated by TLC; class = (event kind, pulse shape, sps parity/size, "
                "container form, sign of Vout, instant class, fault name); non-trivial = the call returned a waveform")
    T = ctx.thorough
    cfg = ("SPECIFICATION Spec\nINVARIANT LenExact\nINVARIANT SlotExact\nINVARIANT SamplerInverts\nINVARIANT SamplerLength\nCHECK_DEADLOCK FALSE\n"
           "CONSTANTS MaxBits = %d\n SpsVals = {2,3,4,5,6,7,8,9}\n Vouts <- VoutSet\n Biases <- BiasSet\n" % (7 if T else 6))
    ctx.tlc("DacModel", cfg, note="every bit string, sps 2..9, NRZ/RZ, every instant", timeout=3000, actions=["Generate", "Sample"])
    ctx.exhaustive = True
    import_repo()
    from opticomlib.devices import DAC, SAMPLER
    from opticomlib.typing import gv, binary_sequence, electrical_signal
    rnd = random.Random(ctx.seed)
    events, meta = [], []

    def form(bits, f):
        a = np.array(bits, dtype=np.uint8)
        return {"str": "".join(map(str, bits)), "list": list(bits), "ndarray": protect(a), "binary_sequence": protect(binary_sequence(a.copy())), "tuple": tuple(bits)}[f]

    def ints64(a):
        v = np.asarray(a) * 64
        assert np.all(np.isreal(v)) and np.all(v.real == np.round(v.real)), "off-lattice sample"
        return [int(x) for x in v.real]

    forms = ["str", "list", "ndarray", "binary_sequence", "tuple"]
    # ---- exhaustive small domain through the real functions
    cnt = 0
    small_bits = [list(b) for L in range(1, 6) for b in itertools.product([0, 1], repeat=L)]
    for sps in [2, 3, 4, 5, 8, 9]:
        with warnings.catch_warnings():
            warnings.simplefilter("ignore")
            gv(sps=sps, R=1e9)
        for bits in small_bits:
            for shape in ("nrz", "rz"):
                cnt += 1
                vout, bias = [(-3, 2), (1, 0), (2, -1), (1, 2), (-3, -1), (0, 1), (0, 0), (2, 0)][cnt % 8]
                f = forms[cnt % 5]
                with deadline(30):
                    w = DAC(form(bits, f), float(bias), float(vout), shape if cnt % 2 else shape.upper())
                events.append({"kind": "dac", "shape": shape, "sps": sps, "bits": bits, "vout": vout * 64, "bias": bias * 64, "wave": ints64(w.signal)})
                meta.append(("dac", shape, sps, f))
                ctx.case(("dac", shape, sps, f, vout > 0, min(len(bits), 3)), {"DAC": ["".join(map(str, bits)), bias, vout, shape], "sps": sps})
                for k in range(sps):
                    with deadline(30):
                        s = SAMPLER(w, k)
                    events.append({"kind": "decide", "shape": shape, "sps": sps, "k": k, "bits": bits, "vout": vout * 64, "bias": bias * 64,
                                   "samples": ints64(s.signal)})
                    meta.append(("decide", shape, sps, k))
                    ctx.case(("decide", shape, sps, k < sps // 2, vout > 0))
    # ---- random: sps 2..128 odd included, dyadic amplitudes, every instant for some, noise in SAMPLER
    for it in range(1500 if T else 70):
        sps = rnd.choice([2, 3, 7, 16, 17, 31, 32, 63, 64, 127, 128, rnd.randrange(2, 129)])
        with warnings.catch_warnings():
            warnings.simplefilter("ignore")
            gv(sps=sps, R=rnd.choice([1e9, 10e9]))
        n = rnd.randrange(1, 40)
        bits = [rnd.randrange(2) for _ in range(n)]
        shape = rnd.choice(["nrz", "rz", "rect"])
        sh = "rz" if shape == "rz" else "nrz"
        vout = rnd.choice([-1, 1]) * rnd.randrange(1, 48 * 64) / 64 if it % 9 else 0.0
        bias = rnd.randrange(-47 * 64, 47 * 64) / 64 if it % 7 else 0.0
        f = rnd.choice(forms)
        with deadline(30):
            w = DAC(form(bits, f), bias, vout, shape)
        events.append({"kind": "dac", "shape": sh, "sps": sps, "bits": bits, "vout": int(vout * 64), "bias": int(bias * 64), "wave": ints64(w.signal)})
        meta.append(("dac", sh, sps, f))
        ctx.case(("rdac", sh, sps % 2, sps > 16, f, vout > 0))
        ks = list(range(sps)) if it % 5 == 0 else [rnd.randrange(sps) for _ in range(3)] + [0, sps - 1, sps // 2]
        ks = list(ks) + [k_ for k_ in (sps, sps + 1, 2 * sps - 1) if k_ < n * sps]          # instants beyond the first slot: samples k, k+sps, ... all the same
        noise = np.array([rnd.randrange(-64, 65) for _ in range(w.len())]) / 64 if it % 2 else None
        x = electrical_signal(w.signal, noise)
        for a in (x.signal, x.noise):
            if a is not None:
                a.flags.writeable = False
        for k in ks:
            with deadline(30):
                s = SAMPLER(x, k)
            events.append({"kind": "sampler", "sps": sps, "k": k, "x": ints64(x.signal), "noise": [] if noise is None else ints64(noise),
                           "out": ints64(s.signal), "outnoise": [] if s.noise is None else ints64(s.noise)})
            meta.append(("sampler", sps, k))
            events.append({"kind": "decide", "shape": sh, "sps": sps, "k": k, "bits": bits, "vout": int(vout * 64), "bias": int(bias * 64),
                           "samples": ints64(s.signal)})
            meta.append(("decide", sh, sps, k))
            ctx.case(("rsampler", sps % 2, k == 0, k == sps - 1, noise is not None, sh))
    # ---- Gaussian: the three observables + SAMPLER at sps//2
    grid = [8, 9, 16, 17, 32, 33, 64, 128] if not T else [8, 9, 10, 11, 16, 17, 31, 32, 33, 63, 64, 100, 127, 128]
    for gi_, sps in enumerate(grid):
        with warnings.catch_warnings():
            warnings.simplefilter("ignore")
            # the same grid reached through the three ways of configuring it (sps given; derived from fs and R; derived from fs and the R in force)
            if gi_ % 3 == 0:
                gv(sps=sps, R=1e9)
            elif gi_ % 3 == 1:
                gv(R=1e9, fs=sps * 1e9)
            else:
                gv(sps=4, R=1e9); gv(fs=sps * 1e9)
        if gv.sps != sps:
            raise RuntimeError("grid configuration")
        Ts = sorted({(sps + 1) // 2, sps // 2 + 1, sps, (3 * sps) // 2, 2 * sps} | ({rnd.randrange((sps + 1) // 2, 2 * sps + 1)} if T else set()))
        for Tw in Ts:
            for m in (1, 2, 3, 4):
                vout = rnd.choice([0.5, 1.0, 2.0, -1.5])
                bias = rnd.choice([0.0, 0.25, -1.0])
                # an isolated 1, alone or followed (six empty slots later) by a run of ones elsewhere in the same record
                bits = [0, 0, 0, 0, 1, 0, 0, 0, 0] + ([0, 0, 1, 1, 1, 0, 0, 0, 0, 1, 1] if (m + Tw) % 2 else [])
                with deadline(60):
                    chirp = [0.0, 0.0, 1.0, -2.0, 0.5][(m + Tw + sps) % 5]          # the envelope's three observables do not depend on the chirp
                    w = DAC(bits, bias, vout, "gaussian", T=Tw, m=m, c=chirp) if Tw != sps else DAC(bits, bias, vout, "gaussian", m=m, c=chirp)      # default width T = sps
                    s = SAMPLER(w, sps // 2)
                y = np.abs(np.asarray(w.signal) - bias)[:9 * sps]          # pulse magnitude above the bias, around the isolated 1
                i = int(np.argmax(y))
                h = y[i] / 2
                l = i
                while y[l] > h:
                    l -= 1
                left = l + (h - y[l]) / (y[l + 1] - y[l])
                r = i
                while y[r] > h:
                    r += 1
                right = r - 1 + (y[r - 1] - h) / (y[r - 1] - y[r])
                # decision of the sampled values against bias + Vout/2 (on the real part; c = 0)
                sv = np.asarray(s.signal).real
                rx = [int(v > bias + vout / 2) if vout > 0 else int(v < bias + vout / 2) for v in sv]
                events.append({"kind": "gauss", "sps": sps, "T": Tw, "m": m, "idx": i - 4 * sps, "peakppm": int(round(y[i] / abs(vout) * 1e6)),
                               "fwhm": int(round((right - left) * 1000)), "len": int(w.len()), "nbits": len(bits), "rxbits": rx[:9], "bits": bits[:9]})
                meta.append(("gauss", sps, Tw, m))
                ctx.case(("gauss", sps % 2, sps > 16, Tw * 2 // sps, m, len(bits) > 9), {"DAC-gaussian": {"sps": sps, "T": Tw, "m": m, "Vout": vout, "bias": bias}})
    # ---- DAC(..., BW=B) is the low-pass filtered waveform (system behaviour beyond the listed clauses)
    from opticomlib.devices import LPF
    for it in range(10 if T else 4):
        with warnings.catch_warnings():
            warnings.simplefilter("ignore")
            gv(sps=rnd.choice([8, 16]), R=1e9)
        bits = [rnd.randrange(2) for _ in range(32)]
        bw = rnd.uniform(0.3, 3.0) * 1e9
        with deadline(60):
            a = DAC(bits, 0.25, 1.5, "nrz", BW=bw).signal
            b = LPF(DAC(bits, 0.25, 1.5, "nrz"), bw).signal
        events.append({"kind": "eqwave", "ppt": int(min(10 ** 9, float(np.max(np.abs(a - b)) / max(np.max(np.abs(b)), 1e-300)) * 1e12))})
        meta.append(("eqwave", "DAC(BW)=LPF(DAC)"))
        ctx.case(("dac-bw", it))
    # ---- verdicts (one fault at a time)
    with warnings.catch_warnings():
        warnings.simplefilter("ignore")
        gv(sps=8, R=1e9)
    faults = {"none": {}, "vout-str": dict(Vout="1"), "bias-str": dict(bias="0"), "vout-list": dict(Vout=[1.0]), "bias-none-ok": dict(bias=None),
              "vout-48": dict(Vout=48.0), "vout-neg48": dict(Vout=-48), "vout-1000": dict(Vout=1000.0), "bias-48": dict(bias=48), "bias-neg100": dict(bias=-100.0),
              "c-str": dict(pulse_shape="gaussian", c="0"), "m-float": dict(pulse_shape="gaussian", m=1.5), "T-float": dict(pulse_shape="gaussian", T=8.0),
              "m-zero": dict(pulse_shape="gaussian", m=0), "m-neg": dict(pulse_shape="gaussian", m=-2), "T-zero": dict(pulse_shape="gaussian", T=0),
              "T-neg": dict(pulse_shape="gaussian", T=-3), "T-over-2sps": dict(pulse_shape="gaussian", T=17), "shape-unknown": dict(pulse_shape="sinc")}
    # complex numbers (Python's and numpy's), tuples and arrays are wrongly typed amplitudes too
    faults.update({"vout-complex": dict(Vout=1 + 1j), "bias-complex": dict(bias=2j), "vout-npcomplex": dict(Vout=np.complex128(3 + 4j)), "bias-npcomplex": dict(bias=np.complex128(1 + 0j)),
                   "vout-npcomplex64": dict(Vout=np.complex64(2 + 1j)), "vout-tuple": dict(Vout=(2.0,)), "bias-ndarray": dict(bias=np.array([3.0])), "bias-list": dict(bias=[0.5])})
    for i_, nm in enumerate(["", "r", "z", "g", "gauss", "sian", "nrzz", "rzz", "tri", "n", "rec"]):
        faults[f"shape-unknown-{i_}"] = dict(pulse_shape=nm)
    with warnings.catch_warnings():
        warnings.simplefilter("ignore")
        gv(sps=8, R=1e9)
    faults.update({"vout-48-gauss-narrow": dict(Vout=48.0, pulse_shape="gaussian", T=4), "vout-49.5-gauss-narrow": dict(Vout=49.5, pulse_shape="gaussian", T=4),
                   "bias-48-gauss": dict(bias=48.0, pulse_shape="gaussian"), "vout-neg1000-rz": dict(Vout=-1000.0, pulse_shape="rz")})
    for name, kw in [(n_, k_) for n_, k_ in faults.items()] + [(n_ + "@zeros", k_) for n_, k_ in faults.items() if n_.startswith(("vout-", "bias-")) and n_ != "bias-none-ok"]:
        try:
            with deadline(30):
                DAC("0000" if name.endswith("@zeros") else "0110", **kw)     # the verdict on an argument does not depend on the data
            raised = "ok"
        except TypeError:
            raised = "TypeError"
        except ValueError:
            raised = "ValueError"
        except Exception as e:
            raised = type(e).__name__
        events.append({"kind": "verdict", "fault": "shape-unknown" if name.startswith("shape-unknown") else name.split("@")[0], "raised": raised})
        meta.append(("verdict", name))
        ctx.case(("verdict", name), None, nontrivial=False)
    gv.clean()
    B = 3000
    for i in range(0, len(events), B):
        for idx, clause in ctx.validate("DacTrace", events[i:i + B], note="DAC/SAMPLER events", timeout=3000):
            m = meta[i + idx - 1]
            ctx.violation(f"{m[0]}:{m[1]}:{clause}", f"event {m} rejected: {clause}", {"event": {k: v for k, v in events[i + idx - 1].items() if not isinstance(v, list) or len(v) < 200}})
