"""C12 - PPM encode/decode bijection; HDD/SDD emit valid codewords.  Spec: PPM.tla, PPMModel.tla, PPMTrace.tla."""
import itertools, random
import numpy as np
from ..core import deadline, import_repo, protect

LEVEL = "model_checking"
INV = ["OneHot", "PositionIsValue", "HddValid", "HddIdentityOnCodewords", "RoundTrip", "DecodeLength", "SddIdentity"]


def cfg(init, ms, maxbits, maxslots):
    return (f"INIT {init}\nNEXT Next\n" + "".join(f"INVARIANT {i}\n" for i in INV) +
            f"CHECK_DEADLOCK FALSE\nCONSTANTS Ms = {{{','.join(map(str, ms))}}}\n MaxBits = {maxbits}\n MaxSlots = {maxslots}\n")


def run(ctx):
    ctx.rule = ("case = one call of PPM_ENCODER/PPM_DECODER/HDD/SDD validated by TLC; class = (function, M, container form, "
                "length class, pattern class); non-trivial = the call returned a sequence")
    T = ctx.thorough
    jobs = [dict(module="PPMModel", cfg=cfg("Init", [2, 4, 8, 16], 12, 0), note="all bit strings <= 12, clean channel"),
            dict(module="PPMModel", cfg=cfg("Init", [2, 4, 8], 8, 8 if not T else 8), note="all corruptions of <= 8 slots",
                 actions=["DoEncode", "DoChannel", "DoHdd", "DoDecode"]),
            dict(module="PPMModel", cfg=cfg("HddInit", [2, 4, 8], 0, 16 if T else 12), note="every slot pattern, every HDD outcome",
                 timeout=3000)]
    ctx.tlc_many(jobs, parallel=2)
    ctx.exhaustive = True

    import_repo()
    from opticomlib.ppm import PPM_ENCODER, PPM_DECODER, HDD, SDD
    from opticomlib.typing import binary_sequence, gv, electrical_signal
    from opticomlib.devices import DAC
    rnd = random.Random(ctx.seed)
    events, meta = [], []

    def forms(bits):
        a = np.array(bits, dtype=np.uint8)
        return {"str": "".join(map(str, bits)), "str-comma": ",".join(map(str, bits)), "str-space": " ".join(map(str, bits)), "str-comma-space": ", ".join(map(str, bits)),
                "list": list(bits), "tuple": tuple(bits), "ndarray": protect(a),
                # the same 0/1 values held as floats, booleans or wide integers (np.round(rand), comparisons, counters)
                "list-float": [float(b) for b in bits], "ndarray-float": protect(a.astype(float)), "ndarray-bool": protect(a.astype(bool)), "ndarray-int64": protect(a.astype(np.int64)),
                "binary_sequence": protect(binary_sequence(a.copy()))}

    def data(x):
        return [int(v) for v in x.data]

    def guarded(fn, *a):
        with deadline(60):
            return fn(*a)

    def lenclass(n, k):
        return "short" if n < k else ("whole" if n % k == 0 else "ragged")

    # ---- encoder / decoder / round trip: every bit string of length 1..12 (quick: M in 2,4,8,16)
    fnames = ["str", "list", "tuple", "ndarray", "binary_sequence", "str-comma", "str-space", "str-comma-space", "list-float", "ndarray-float", "ndarray-bool", "ndarray-int64"]
    cnt = 0
    for L in range(1, 13):
        for bits in itertools.product([0, 1], repeat=L):
            bits = list(bits)
            for M in (2, 4, 8, 16):
                k = M.bit_length() - 1
                use = fnames if L <= 6 else [fnames[cnt % 8]]
                cnt += 1
                for f in use:
                    try:
                        enc = guarded(PPM_ENCODER, forms(bits)[f], M)
                        events.append({"kind": "enc", "M": M, "bits": bits, "out": data(enc)})
                        meta.append(("enc", M, f, bits))
                        ctx.case(("enc", M, f, lenclass(L, k)), {"PPM_ENCODER": ["".join(map(str, bits)), M], "->": "".join(map(str, data(enc)))})
                        if L >= k:
                            dec = guarded(PPM_DECODER, forms(data(enc))[f], M)
                            events.append({"kind": "rt", "M": M, "bits": bits, "out": data(dec)})
                            meta.append(("rt", M, f, bits))
                            ctx.case(("rt", M, f, lenclass(L, k)))
                    except Exception as e:
                        if L < k:
                            # fewer bits than one symbol: nothing to encode; outside "whole symbols" - tolerated
                            continue
                        ctx.violation(f"enc:{type(e).__name__}:form={f}", f"PPM codec raised {e!r} on {bits} M={M}",
                                      {"bits": bits, "M": M, "form": f})
    # ---- long random sequences, M up to 256
    for _ in range(400 if ctx.thorough else 60):
        M = rnd.choice([2, 4, 8, 16, 32, 64, 128, 256])
        k = M.bit_length() - 1
        L = rnd.choice([k, 3 * k, 5 * k + 1, rnd.randrange(k, 600)])
        bits = [rnd.randrange(2) for _ in range(L)]
        f = rnd.choice(fnames)
        enc = guarded(PPM_ENCODER, forms(bits)[f], M)
        dec = guarded(PPM_DECODER, enc, M)
        events.append({"kind": "enc", "M": M, "bits": bits, "out": data(enc)}); meta.append(("enc", M, f, "random"))
        events.append({"kind": "rt", "M": M, "bits": bits, "out": data(dec)}); meta.append(("rt", M, f, "random"))
        events.append({"kind": "dec", "M": M, "slots": data(enc), "out": data(dec)}); meta.append(("dec", M, f, "random"))
        ctx.case(("long", M, f, lenclass(L, k)))
    # ---- orders beyond one byte of symbol value: round trip, exactly one ON slot per symbol at the big-endian position
    for M in (512, 1024, 4096) + ((65536,) if ctx.thorough else ()):
        k = M.bit_length() - 1
        for rep in range(3):
            L = k * rnd.choice([1, 4, 9]) + rnd.choice([0, 1, k - 1])
            bits = [rnd.randrange(2) for _ in range(L)]
            f = rnd.choice(fnames)
            enc = guarded(PPM_ENCODER, forms(bits)[f], M)
            dec = guarded(PPM_DECODER, enc, M)
            events.append({"kind": "rt", "M": M, "bits": bits, "out": data(dec)}); meta.append(("rt", M, f, "large-order"))
            e_ = np.asarray(enc.data).reshape(-1, M)
            pos = [int(np.flatnonzero(r_)[0]) if r_.sum() == 1 else -1 for r_ in e_]
            want = [int("".join(map(str, bits[i * k:(i + 1) * k])), 2) for i in range(L // k)]
            if pos != want:
                ctx.violation(f"enc:M={M}:position", f"PPM_ENCODER order {M}: ON positions {pos[:6]} differ from the big-endian values {want[:6]}", {"M": M, "bits": bits})
            ctx.case(("large-order", M, f))
    # ---- sequences beyond 2^16 bits (k = 3, 5, 7 do not divide a power-of-two block): positions and round trip, compared in the harness
    for M, L in ((8, 70001), (32, 65536 + 37), (128, 131072 + 5), (4, 65537)) + (((512, 200003),) if ctx.thorough else ()):
        k = M.bit_length() - 1
        bits = np.random.RandomState(L).randint(0, 2, L).astype(np.uint8)
        enc = guarded(PPM_ENCODER, protect(bits.copy()) if M != 32 else "".join(map(str, bits)), M)
        dec = guarded(PPM_DECODER, enc, M)
        nsym = L // k
        e_ = np.asarray(enc.data)
        ok_shape = e_.size == nsym * M
        pos_ok = ok_shape and bool(np.all(e_.reshape(nsym, M).sum(axis=1) == 1)) and \
            bool(np.array_equal(e_.reshape(nsym, M).argmax(axis=1), bits[:nsym * k].reshape(nsym, k) @ (1 << np.arange(k - 1, -1, -1))))
        rt_ok = bool(np.array_equal(np.asarray(dec.data), bits[:nsym * k]))
        if not pos_ok:
            ctx.violation(f"enc:M={M}:long-sequence", f"PPM_ENCODER of {L} bits, order {M}: not one ON slot per symbol at the big-endian position", {"M": M, "len": L})
        if not rt_ok:
            ctx.violation(f"rt:M={M}:long-sequence", f"PPM_DECODER(PPM_ENCODER(b)) differs from b truncated for {L} bits, order {M}", {"M": M, "len": L})
        ctx.case(("long-sequence", M), None)
    # ---- HDD: every slot pattern up to 12 (16) slots, M <= 8, several numpy seeds
    maxs = 16 if ctx.thorough else 12
    seeds = [0, 1, 2, 3] if ctx.thorough else [0, 1]
    for M in (2, 4, 8):
        for K in range(M, maxs + 1, M):
            for pat in itertools.product([0, 1], repeat=K):
                pat = list(pat)
                if K == 16 and M == 2 and rnd.random() > 0.25:
                    continue
                f = fnames[sum(pat) % 5]
                for sd in seeds:
                    np.random.seed(sd)
                    out = guarded(HDD, forms(pat)[f], M)
                    events.append({"kind": "hdd", "M": M, "in": pat, "out": data(out)})
                    meta.append(("hdd", M, f, pat))
                nsym = K // M
                ons = [sum(pat[j * M:(j + 1) * M]) for j in range(nsym)]
                ctx.case(("hdd", M, f, min(K, 9), ("empty" if 0 in ons else "") + ("multi" if max(ons) > 1 else "") or "valid"),
                         {"HDD": ["".join(map(str, pat)), M], "->": "".join(map(str, data(out)))})
    # ---- SDD on integer waveforms
    for _ in range(300 if ctx.thorough else 80):
        M = rnd.choice([2, 4, 8, 16])
        sps = rnd.choice([2, 3, 4, 5, 8, 16])
        gv(sps=sps, R=1e9)
        nsym = rnd.randrange(1, 6)
        k = M.bit_length() - 1
        bits = [rnd.randrange(2) for _ in range(nsym * k)]
        code = PPM_ENCODER(bits, M)
        shape = rnd.choice(["nrz", "rz"])
        vout, bias = rnd.choice([1, 2, 5, -3]), rnd.choice([0, 1, -2])
        wave = guarded(DAC, code, float(bias), float(vout), shape)
        noise = np.array([rnd.randrange(-2, 3) for _ in range(wave.len())], dtype=float) if rnd.random() < 0.6 else None
        sig = protect(electrical_signal(wave.signal, noise))
        out = guarded(SDD, sig, M)
        tot = sig.signal if noise is None else sig.signal + noise
        assert np.all(tot == np.round(tot))
        events.append({"kind": "sdd", "M": M, "sps": sps, "x": [int(v) for v in tot], "out": data(out)})
        meta.append(("sdd", M, sps, shape))
        ctx.case(("sdd", M, sps, shape, noise is not None, vout > 0))
        if noise is None and vout > 0 and data(out) != data(code):
            ctx.violation(f"sdd:identity:{shape}", "SDD is not the identity on a noiseless waveform", {"bits": bits, "M": M, "sps": sps})
    gv.clean()
    # ---- verdicts
    for fn, f in (("HDD", HDD), ("SDD", SDD)):
        for M in (2, 3, 4, 6, 8, 12):
            for n in (M, M + 1, 2 * M, 2 * M - 1, 8, 24):
                gv(sps=2, R=1e9)
                unit = 1 if fn == "HDD" else 2
                arg = [i % 2 for i in range(n * unit)] if fn == "HDD" else electrical_signal(np.arange(n * unit) % 3)
                try:
                    guarded(f, arg, M)
                    raised = "ok"
                except ValueError:
                    raised = "ValueError"
                except Exception as e:
                    raised = type(e).__name__
                events.append({"kind": "verdict", "fn": fn, "M": M, "len": n * unit, "unit": unit, "raised": raised})
                meta.append(("verdict", fn, M, n))
                ctx.case(("verdict", fn, M & (M - 1) == 0, n % M == 0), None, nontrivial=False)
    # SDD on records with stray samples beyond a whole number of slots / symbols, or shorter than one slot
    for sps_ in (2, 4, 8):
        for M in (2, 4, 8):
            for nsym in (0, 1, 3):
                for r in sorted({1, sps_ - 1, sps_, sps_ + 1, (M - 1) * sps_, M * sps_ - 1}):
                    n = nsym * M * sps_ + r
                    gv(sps=sps_, R=1e9)
                    try:
                        guarded(SDD, electrical_signal(np.arange(n) % 5 + 0.5), M)
                        raised = "ok"
                    except Exception as e:
                        raised = type(e).__name__
                    events.append({"kind": "verdict", "fn": "SDD", "M": M, "len": n, "unit": sps_, "raised": raised})
                    meta.append(("verdict", "SDD", M, n))
                    ctx.case(("verdict-stray", M, sps_, nsym > 0, r % sps_ == 0), None, nontrivial=False)
    gv.clean()
    # ---- TLC validates
    B = 40000
    for i in range(0, len(events), B):
        for idx, clause in ctx.validate("PPMTrace", events[i:i + B], note="ppm events"):
            m = meta[i + idx - 1]
            ctx.violation(f"{m[0]}:M={m[1]}:{clause}", f"event {m} rejected: {clause}", {"event": events[i + idx - 1]})
