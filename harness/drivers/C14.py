"""C14 - global grid consistent over any call history; devices pure and seedable.
Spec: GlobalGrid.tla, MC_GlobalGrid.tla (history replay), GlobalGridTrace.tla (stateful trace), World.tla, WorldTrace.tla."""
import random, hashlib, json, warnings, math
import numpy as np
from ..core import deadline, import_repo, MachineryError, Deadline
from ..behav import parse_ev

LEVEL = "model_checking"
CONSTS = ("CONSTANTS SpsVals = {%s}\n RVals = {%s}\n FsVals = {%s}\n NVals = {%s}\n WlVals = {%s}\n Keys = {%s}\n DefaultR = 1000\n")
FULL = CONSTS % ("8,16", "1000,2000", "8000,16000,32000", "4,10", "1310", '"alpha"')
WIDE = CONSTS % ("4,8,16", "500,1000,2000", "8000,16000,32000", "1,4,10", "1310,1064", '"alpha","beta"')
TRACE = CONSTS % ("4,5,8,10,16", "500,1000,2000,3000", "5000,8000,10000,15000,16000,32000", "1,4,10", "1310,1064", '"alpha","beta"')   # domains of the recorded traces
SMALL = CONSTS % ("8,16", "1000,2000", "16000,32000", "4", "1310", '"alpha"')
PROPS = "INVARIANT GridConsistent\nINVARIANT CleanRestores\nPROPERTY CustomPersists\nPROPERTY NSticky\nCHECK_DEADLOCK FALSE\n"


def opt(x):
    return None if len(x) == 0 else x[0]


def run(ctx):
    ctx.rule = ("case = one gv()/clean() call of a replayed or recorded history, or one library call of a recorded world history; "
                "class = (which keyword arguments were passed, N in effect before, custom present) resp. (function name, outcome class); "
                "non-trivial = the call changed or exercised the grid / returned a value")
    T = ctx.thorough
    import_repo()
    from scipy.constants import c as C_LIGHT
    import opticomlib.typing as typing_mod
    from opticomlib.typing import gv, binary_sequence, electrical_signal, optical_signal
    rnd = random.Random(ctx.seed)

    # ------------------------------------------------------------------ 1. the grid: model checking
    ctx.tlc("GlobalGrid", "SPECIFICATION Spec\n" + PROPS + (WIDE if T else FULL), note="complete reachable state space of gv", actions=["Call", "Clean"])
    ctx.exhaustive = True
    # unbounded: GridConsistent as an inductive invariant over all positive integers (Apalache), linked to GlobalGrid by a TLC-checked
    # step refinement; negative control = the pre-fix behaviour (grid rebuilt only when N is passed) must break the induction step
    ctx.tlc("GlobalGridRefine", "SPECIFICATION Spec\nINVARIANT InvMapped\nPROPERTY StepRefines\nCHECK_DEADLOCK FALSE\n" + FULL,
            note="every GlobalGrid step is a GlobalGridInd step (refinement mapping)", count=False)
    ctx.apalache("GlobalGridInd", ["--init=Init", "--inv=IndInv", "--length=0"], note="Init => IndInv")
    ctx.apalache("GlobalGridInd", ["--init=IndInit", "--inv=IndInv", "--length=1"], note="IndInv /\\ Next => IndInv' (unbounded integers)")
    ctx.apalache("GlobalGridInd", ["--init=IndInit", "--next=NextStale", "--inv=IndInv", "--length=1"], expect_error=True,
                 note="negative control: stale grid breaks the induction step")
    ctx.extra["obligations"] = 2
    ctx.extra["discharged"] = 2
    ctx.extra["inductive_invariant"] = "GlobalGridInd!IndInv (Apalache 0.58, unbounded Int): Init => IndInv; IndInv /\\ Next => IndInv'"

    # the specification's abstract custom keys stand for arbitrary attribute names chosen by the user, including names that are
    # fragments of the built-in ones
    KEYMAP = {"alpha": "alpha", "beta": "beta"}
    ALT = [("alpha", "beta"), ("length", "n"), ("d", "l"), ("p", "wave"), ("s", "f"), ("Vpi", "BW"), ("ps", "dt_"), ("a", "e")]

    def real_state():
        inv = {v: k for k, v in KEYMAP.items()}
        cust = sorted(inv.get(k, "?" + k) for k in vars(gv) if k not in ("sps", "R", "fs", "dt", "wavelength", "f0", "N", "t", "w", "dw"))
        return cust

    def close(a, b, rel=1e-12):
        return abs(a - b) <= rel * max(abs(a), abs(b), 1e-300)

    def compare(spec, key, ev):
        """projection of the real singleton compared with the spec state (all fields of the statement)"""
        fs = spec["fs"] * 1e6
        errs = []
        if gv.sps != spec["sps"] or not isinstance(gv.sps, (int, np.integer)):
            errs.append(f"sps={gv.sps!r}")
        if not close(gv.R, spec["R"] * 1e6):
            errs.append(f"R={gv.R}")
        if not close(gv.fs, fs) or not close(gv.fs, gv.R * gv.sps):
            errs.append(f"fs={gv.fs}")
        if not close(gv.dt, 1 / fs):
            errs.append(f"dt={gv.dt}")
        if not close(gv.wavelength, spec["wl"] * 1e-9) or not close(gv.f0, C_LIGHT / gv.wavelength):
            errs.append(f"wavelength/f0={gv.wavelength}/{gv.f0}")
        N = opt(spec["N"])
        if gv.N != N:
            errs.append(f"N={gv.N}")
        g = opt(spec["grid"])
        if g is None:
            if gv.t is not None or gv.w is not None or gv.dw is not None:
                errs.append("t/w/dw present without N")
        else:
            npts, gfs = g[0], g[1] * 1e6
            if gv.t is None or gv.w is None or gv.dw is None:
                errs.append("t/w/dw missing")
            else:
                if len(gv.t) != npts or len(gv.w) != npts:
                    errs.append(f"len(t)={len(gv.t)},len(w)={len(gv.w)} expected {npts}")
                else:
                    if not close(gv.dw, 2 * math.pi * gfs / npts, 1e-9):
                        errs.append(f"dw={gv.dw}")
                    if not np.allclose(gv.w, 2 * np.pi * np.fft.fftshift(np.fft.fftfreq(npts)) * gfs, rtol=1e-9, atol=1e-3):
                        errs.append("w not on the current fs")
                    if not (gv.t[0] == 0 and close(gv.t[-1], npts / gfs, 1e-9)):
                        errs.append(f"t range {gv.t[0]}..{gv.t[-1]}")
        if sorted(spec["custom"]) != real_state():
            errs.append(f"custom={real_state()}")
        if errs:
            ctx.violation(key, "; ".join(errs), ev)
            return False
        return True

    UNIT = [1e6]          # Hz per rate unit of the specification instance (1e6, or 1e6/3: then no rate is a whole number of Hz)

    def do_call(c):
        if c["op"] == "clean":
            gv.clean()
            return
        kw = {}
        if opt(c["sps"]) is not None:
            kw["sps"] = opt(c["sps"])
        if opt(c["R"]) is not None:
            kw["R"] = opt(c["R"]) * UNIT[0]
        if opt(c["fs"]) is not None:
            kw["fs"] = opt(c["fs"]) * UNIT[0]
        if opt(c["wl"]) is not None:
            kw["wavelength"] = opt(c["wl"]) * 1e-9
        if opt(c["N"]) is not None:
            kw["N"] = opt(c["N"])
        for k in c["keys"]:
            kw[KEYMAP[k]] = 0.5
        with warnings.catch_warnings():
            warnings.simplefilter("ignore")
            gv(**kw)

    def callclass(c, spec_before_N=None):
        if c["op"] == "clean":
            return ("clean",)
        return tuple(k for k in ("sps", "R", "fs", "wl", "N") if opt(c[k]) is not None) + (("custom",) if c["keys"] else ())

    # ------------------------------------------------------------------ 2. replay of every history of length <= 2 (3)
    r = ctx.tlc("MC_GlobalGrid", "SPECIFICATION HSpec\nINVARIANT GridConsistent\nINVARIANT Emit\nCHECK_DEADLOCK FALSE\n" +
                (FULL if T else SMALL) + " MaxHist = 2\n", workers=1, note="all histories of length <= 2 (replayed)", timeout=3000, count=False)
    evs = parse_ev(r.out)
    if len(evs) != r.distinct - 1:
        raise MachineryError(f"parsed {len(evs)} histories of {r.distinct - 1}")
    for n_ev, ev in enumerate(evs):
        gv.clean()
        KEYMAP["alpha"], KEYMAP["beta"] = ALT[n_ev % len(ALT)]
        with deadline(30):
            for c in ev["hist"]:
                do_call(c)
        hk = "+".join("/".join(callclass(c)) or "noargs" for c in ev["hist"])
        ctx.case(("hist", hk), {"history": ev["hist"], "state": ev["state"]})
        compare(ev["state"], "gv-history:" + hk, ev)
    ctx.behaviours += len(evs)
    gv.clean()
    # ------------------------------------------------------------------ 3. long random histories, stateful trace validation
    def rand_call():
        if rnd.random() < 0.1:
            return {"op": "clean"}
        def o(vals, p):
            return [rnd.choice(vals)] if rnd.random() < p else []
        for _ in range(100):
            c = {"op": "call", "sps": o([4, 5, 8, 10, 16], .4), "R": o([500, 1000, 2000, 3000], .4), "fs": o([5000, 8000, 10000, 15000, 16000, 32000], .3),
                 "wl": o([1310, 1064], .2), "N": o([1, 4, 10], .3), "keys": [k for k in ("alpha", "beta") if rnd.random() < .15]}
            s, R_, f = opt(c["sps"]), opt(c["R"]), opt(c["fs"])
            curR = round(gv.R / UNIT[0])
            if s is not None:
                ok = True if R_ is not None else (f is None or f % s == 0)
            elif R_ is not None:
                ok = f is None or f % R_ == 0
            else:
                ok = f is None or f % curR == 0
            if ok:
                return c
        return {"op": "clean"}

    def project():
        return {"sps": int(gv.sps), "R": int(round(gv.R / UNIT[0])), "fs": int(round(gv.fs / UNIT[0])), "wl": int(round(gv.wavelength * 1e9)),
                "N": [] if gv.N is None else [int(gv.N)],
                "grid": [] if gv.t is None else [[len(gv.t), int(round(gv.dw * len(gv.t) / (2 * math.pi) / UNIT[0]))]],
                "custom": real_state()}

    ntr = 100 if T else 8
    for tr in range(ntr):
        gv.clean()
        trace = []
        UNIT[0] = 1e6 if tr % 2 == 0 else 1e6 / 3
        KEYMAP["alpha"], KEYMAP["beta"] = ALT[tr % len(ALT)]
        for _ in range(60):
            c = rand_call()
            with deadline(30):
                do_call(c)
            st = project()
            # the projection above is lossy on purpose (integers for TLC); the float-level fields are compared here
            spec_like = dict(st)
            if not (isinstance(gv.sps, (int, np.integer)) and close(gv.R, st["R"] * UNIT[0], 1e-9) and close(gv.fs, st["fs"] * UNIT[0], 1e-9) and close(gv.dt, 1 / gv.fs) and close(gv.f0, C_LIGHT / gv.wavelength) and close(gv.fs, gv.R * gv.sps) and
                    (gv.w is None or (len(gv.w) == len(gv.t) and np.allclose(gv.w, 2 * np.pi * np.fft.fftshift(np.fft.fftfreq(len(gv.w))) * gv.fs, rtol=1e-9, atol=1e-3)))):
                ctx.violation("gv-trace:derived-fields", "dt/f0/fs/w inconsistent with the values in force", {"call": c, "state": st})
            trace.append({**c, "state": st} if c["op"] == "call" else {"op": "clean", "state": st})
            ctx.case(("trace", tr % 2, KEYMAP["alpha"]) + callclass(c))
        f = ctx.newfile("gvtrace", "ndjson")
        with open(f, "w") as fh:
            for e in trace:
                fh.write(json.dumps(e) + "\n")
        out = ctx.newfile("gvtrace_out", "json")
        ctx.tlc("GlobalGridTrace", "SPECIFICATION TraceSpec\nINVARIANT Report\nCHECK_DEADLOCK FALSE\n" + (TRACE if tr % 2 == 0 else TRACE.replace("DefaultR = 1000", "DefaultR = 3000")),
                env={"IN_FILE": f, "OUT_FILE": out}, workers=1, note="gv trace", count=False)
        res = json.load(open(out))
        ctx.traces += 1
        ctx.events += len(trace)
        if res["matched"] != res["n"]:
            bad = trace[res["matched"]]
            UNIT[0] = 1e6
            ctx.violation("gv-trace:" + "/".join(callclass(bad)), f"event {res['matched'] + 1} of a recorded gv history is not a step of GlobalGrid: {bad}",
                          {"trace": trace[:res["matched"] + 1]})
    UNIT[0] = 1e6
    KEYMAP["alpha"], KEYMAP["beta"] = "alpha", "beta"
    gv.clean()
    # ------------------------------------------------------------------ 4. purity of the library functions (World)
    ctx.tlc("World", "SPECIFICATION Spec\nPROPERTY Reproducible\nCHECK_DEADLOCK FALSE\nCONSTANTS Funcs = {\"det\",\"rand\"}\n "
            "Deterministic = {\"det\"}\n Digests = {1,2}\n ArgVals = {%s}\n" % ("1,2" if T else "1"), note="world design spec (sanity instance)", timeout=3000)
    world(ctx, rnd, T)
    edited_objects(ctx, rnd, T)
    timer_layer(ctx, rnd, T)


def edited_objects(ctx, rnd, T):
    """A deterministic block gives the same result for the same samples whatever was called before on the same object: call, edit the
    object's samples in place, call again, and compare with the call on a brand-new object holding the same samples (same numpy seed)."""
    from .. import world_lib as wl
    dv, ppm, ook, ut, gv, binary_sequence, electrical_signal, optical_signal, eye = wl.load()
    wl.configure(8, 10e9, None)
    rs = np.random.RandomState(31)
    n = 128
    blocks = {
        "DM": (lambda: optical_signal(rs.randn(n) + 1j * rs.randn(n)), lambda o: dv.DM(o, 40.0)),
        "FIBER": (lambda: optical_signal(np.array([rs.randn(n) + 1j * rs.randn(n), rs.randn(n) + 0j]) * 0.1), lambda o: dv.FIBER(o, 10.0, 0.2, -20.0, 0.1, 1.3, 0.05)),
        "BPF": (lambda: optical_signal(rs.randn(n) + 1j * rs.randn(n), rs.randn(n) * 0.1 + 0j), lambda o: dv.BPF(o, 20e9)),
        "LPF": (lambda: electrical_signal(rs.randn(n), rs.randn(n) * 0.1), lambda o: dv.LPF(o, 7e9)),
        "PD": (lambda: optical_signal((rs.randn(n) + 1j * rs.randn(n)) * 0.01), lambda o: dv.PD(o, 7e9, include_noise="ase-only")),
        "SAMPLER": (lambda: electrical_signal(rs.randn(n), rs.randn(n)), lambda o: dv.SAMPLER(o, 3)),
        "transform": (lambda: electrical_signal(rs.randn(n) + 1j * rs.randn(n), rs.randn(n)), lambda o: o("w", True)),
        "power": (lambda: optical_signal(np.array([rs.randn(n) + 1j * rs.randn(n), rs.randn(n) + 0j])), lambda o: electrical_signal(np.atleast_1d(o.power()))),
        "ADC": (lambda: electrical_signal(rs.randn(n)), lambda o: dv.ADC(o, n=3)),
        "gt": (lambda: electrical_signal(np.abs(rs.randn(n)), np.abs(rs.randn(n)) * 0.1), lambda o: electrical_signal((o > 0.5).data.astype(float))),
    }
    for name, (mk, fn) in blocks.items():
        obj = mk()
        with warnings.catch_warnings():
            warnings.simplefilter("ignore")
            with deadline(120):
                np.random.seed(5)
                fn(obj)
                obj.signal[..., ::3] = obj.signal[..., ::3] * 2 + 1
                if obj.noise is not None:
                    obj.noise *= 0.5
                fresh = type(obj)(np.array(obj.signal), None if obj.noise is None else np.array(obj.noise))
                np.random.seed(6)
                again = fn(obj)
                np.random.seed(6)
                ref = fn(fresh)
        same = np.array_equal(np.asarray(again.signal), np.asarray(ref.signal)) and ((again.noise is None) == (ref.noise is None)) and \
            (again.noise is None or np.array_equal(np.asarray(again.noise), np.asarray(ref.noise)))
        if not same:
            ctx.violation(f"world:{name}:depends-on-earlier-calls", f"{name} on an object whose samples were edited in place differs from {name} on a new object with the same samples",
                          {"block": name})
        ctx.case(("edited-object", name), None)


def timer_layer(ctx, rnd, T):
    """Supplementary (not part of C14's verdict): the tic()/toc() timer stack as specified in Timer.tla.  TLC checks the balanced design
    and exhibits, for the code as it is (a failing call leaves its start time on the stack), the broken user pairing; recorded
    tic/toc/device histories of the real library are validated by TimerTrace.tla.  Results go to the evidence as notes."""
    import time
    from .. import world_lib as wl
    dv, ppm, ook, ut, gv, binary_sequence, electrical_signal, optical_signal, eye = wl.load()
    cfg = "SPECIFICATION Spec\nINVARIANT TypeOK\nINVARIANT Ordered\nINVARIANT ElapsedNonNegative\nINVARIANT ExecNonNegative\nINVARIANT UserPairing\nCHECK_DEADLOCK FALSE\n" \
          "CONSTANTS MaxDepth = 3\n MaxTime = %d\n LeakOnError = %s\n"
    ctx.tlc("Timer", cfg % (6 if T else 5, "FALSE"), note="supplementary: balanced timer design (user toc pairs with user tic)", count=False)
    neg = ctx.tlc("Timer", cfg % (5, "TRUE"), expect_ok=False, count=False, note="supplementary: the code as it is - a failing call leaks its start time (UserPairing violated)")
    leak_model = "UserPairing" in neg.violated
    ti = ut._timer_instance
    wl.configure(16, 1e9, None)
    I = wl.inputs()
    F, _ = wl.funcs()
    fast = [n for n in ("PRBS", "DAC-nrz", "LPF", "SAMPLER", "PPM_ENCODER", "HDD", "MZM", "DM", "ADC", "BPF") if n in F]
    failing = [("FIBER(ndarray)", lambda: dv.FIBER(np.ones(8), 1.0)), ("DAC(shape='sinc')", lambda: dv.DAC(I["bits"], pulse_shape="sinc")),
               ("PD(r=-1)", lambda: dv.PD(I["o1"], 1e9, r=-1.0)), ("EDFA(ndarray)", lambda: dv.EDFA(np.ones(8), 10, 5)), ("PRBS(order=8)", lambda: dv.PRBS(8, 10))]
    events, mirror = [], []
    del ti.tic_stack[:]
    us = lambda t: int(round(t * 1e6))
    for k in range(400 if T else 120):
        r = rnd.random()
        if r < 0.25:
            ut.tic(); mirror.append(time.perf_counter())
            events.append({"kind": "tic", "depth": len(ti.tic_stack)})
        elif r < 0.5:
            t_now = time.perf_counter()
            try:
                el, raised = float(ut.toc()), False
            except Exception:
                el, raised = -1.0, True
            since = (t_now - mirror.pop()) if mirror else 0.0
            events.append({"kind": "toc", "depth": len(ti.tic_stack), "raised": raised, "elapsed_us": us(el), "since_us": us(since)})
        elif r < 0.85:
            name = rnd.choice(fast)
            t0 = time.perf_counter()
            with warnings.catch_warnings():
                warnings.simplefilter("ignore")
                with deadline(60):
                    out = F[name][1](F[name][0](I))
            wall = time.perf_counter() - t0
            ex = getattr(out, "execution_time", None)
            events.append({"kind": "device", "name": name, "depth": len(ti.tic_stack), "raised": False, "exec_us": -1 if ex is None else us(float(ex)), "wall_us": us(wall)})
        else:
            name, call = rnd.choice(failing)
            d0, t0 = len(ti.tic_stack), time.perf_counter()
            try:
                with warnings.catch_warnings():
                    warnings.simplefilter("ignore")
                    call()
                raised = False
            except Exception:
                raised = True
            if len(ti.tic_stack) == d0 + 1:
                mirror.append(t0)
            events.append({"kind": "device", "name": name, "depth": len(ti.tic_stack), "raised": raised, "exec_us": -1, "wall_us": us(time.perf_counter() - t0)})
    del ti.tic_stack[:]
    bad = ctx.validate("TimerTrace", events, note="supplementary: timer stack trace")
    leaks = sorted({events[i - 1]["name"] for i, c in bad if c == "NOTE-leak-on-error"})
    other = [(i, c) for i, c in bad if c != "NOTE-leak-on-error"]
    ctx.extra["supplementary_timer"] = {"model_exhibits_broken_user_pairing_for_the_code_as_it_is": leak_model, "events": len(events),
                                        "failing_calls_that_leave_a_start_time_on_the_stack": leaks, "other_mismatches": [f"{events[i - 1]['kind']}:{c}" for i, c in other][:10]}
    if leaks:
        print(f"NOTE property=C14 supplementary Timer.tla (outside the statement): failing calls leave their tic() on the timer stack: {', '.join(leaks)}")
    for i, c in other[:5]:
        print(f"NOTE property=C14 supplementary Timer.tla (outside the statement): event {i} {events[i - 1]} does not match the timer specification ({c})")


def world(ctx, rnd, T):
    import subprocess, sys, os
    from .. import world_lib as wl
    from ..core import VERIF
    dv, ppm, ook, ut, gv, binary_sequence, electrical_signal, optical_signal, eye = wl.load()
    intern = {}

    def iid(s):
        return intern.setdefault(s, len(intern) + 1)

    F, RANDOM = wl.funcs()
    det = sorted(set(F) - RANDOM)
    names = [n for n, v in F.items() for _ in range(v[2])]
    ntr, nlen = (20, 300) if T else (3, 120)
    for tr in range(ntr):
        cfg = (rnd.choice([8, 16]), rnd.choice([1e9, 2.5e9]), None)
        wl.configure(*cfg)
        with warnings.catch_warnings():
            warnings.simplefilter("ignore")
            I = wl.inputs()
        np.random.seed(rnd.randrange(1000))
        trace, requests, recent = [], [], []
        # systematic prologue (first history only): every function of the table under two sampling configurations in turn, re-seeded,
        # and later repeated by the fresh interpreter in the opposite order - state that survives a reconfiguration (memoised designs,
        # grids, densities) shows up as a memo conflict whatever the random part of the history happens to contain
        plan = []
        if tr == 0:
            for cfgp in ((16, 1e9, None), (8, 1e9, None), (8, 2.5e9, 64)):
                plan += [("gv", cfgp)] + [("call", nm) for nm in sorted(F)]
            # odd numbers of samples per slot (half-slot arithmetic, buffers of odd length), the waveform generators called in turn
            for cfgp in ((5, 1e9, None), (9, 2.5e9, 3)):
                plan += [("gv", cfgp)] + [("call", nm) for nm in ("DAC-nrz", "DAC-rz", "DAC-nrz", "DAC-rz", "DAC-gauss", "DAC-rz", "SAMPLER", "PPM_ENCODER", "SDD", "LPF", "DAC-rz")]
        forced = list(plan)
        for step in range(nlen + len(plan)):
            gb, rb = iid(wl.gv_raw()), iid(wl.rng_raw())
            u = rnd.random()
            todo = forced.pop(0) if forced else None
            if todo is not None:
                u = 0.0 if todo[0] == "gv" else 0.2
            if u < 0.14:
                cfg = todo[1] if todo is not None else (rnd.choice([8, 16, 5, 9]), rnd.choice([1e9, 2.5e9]), rnd.choice([None, 64, 3]))
                rs = np.random.get_state()
                wl.configure(*cfg)
                with warnings.catch_warnings():
                    warnings.simplefilter("ignore")
                    I = wl.inputs()                   # inputs follow the grid; built outside the monitored history
                np.random.set_state(rs)
                trace.append({"kind": "gv", "f": "gv", "args": 0, "argsAfter": 0, "gvBefore": gb, "gvAfter": iid(wl.gv_raw()),
                              "rngBefore": rb, "rngAfter": iid(wl.rng_raw()), "res": 0, "alias": False})
                continue
            reseed = u < 0.45
            if reseed:
                s = rnd.choice([0, 1, 2])
                np.random.seed(s)
                trace.append({"kind": "seed", "f": f"seed{s}", "args": 0, "argsAfter": 0, "gvBefore": gb, "gvAfter": iid(wl.gv_raw()),
                              "rngBefore": rb, "rngAfter": iid(wl.rng_raw()), "res": 0, "alias": False})
                gb, rb = iid(wl.gv_raw()), iid(wl.rng_raw())
            name = todo[1] if todo is not None else (rnd.choice(recent) if (recent and rnd.random() < 0.3) else rnd.choice(names))
            recent = (recent + [name])[-6:]
            build, fn, _ = F[name]
            args = build(I)
            akey = iid("a" + wl.dig(args))
            alias = False
            try:
                with warnings.catch_warnings():
                    warnings.simplefilter("ignore")
                    with deadline(120):
                        res = fn(args)
                rkey = iid("r" + wl.dig(res))
                ina = wl.arrays_of(args, [])
                alias = any(np.shares_memory(x, y) for x in wl.arrays_of(res, []) for y in ina)
            except Deadline:
                ctx.violation(f"world:{name}:hang", "call did not return within 120 s", {"function": name})
                continue
            except ValueError as e:
                if "read-only" in str(e):
                    ctx.violation(f"world:{name}:argument-modified", f"{name} tried to write into its (write-protected) argument: {e}", {"function": name})
                    continue
                rkey = iid("exc" + type(e).__name__)
            except Exception as e:
                rkey = iid("exc" + type(e).__name__ + str(e)[:80])
            trace.append({"kind": "invoke", "f": name, "args": akey, "argsAfter": iid("a" + wl.dig(args)), "gvBefore": gb, "gvAfter": iid(wl.gv_raw()),
                          "rngBefore": rb, "rngAfter": iid(wl.rng_raw()), "res": rkey, "alias": bool(alias)})
            if reseed:
                requests.append({"name": name, "sps": cfg[0], "R": cfg[1], "N": cfg[2], "seed": s})
            ctx.case(("world", name, "rand" if name in RANDOM else "det"), {"call": name, "gv": [gv.sps, gv.R]} if tr == 0 else None)
        # the same calls once more in a FRESH interpreter (no call history), in another order: "deterministic blocks give
        # identical results whatever was called before"; the events join the same trace after a boundary marker, so a
        # different result for the same (function, arguments, gv[, RNG state]) is a memo conflict in WorldTrace
        nforced = sum(1 for p_ in plan if p_[0] == "call")
        head, tail_ = requests[:nforced][::-1], requests[nforced:]
        rnd.shuffle(tail_)
        requests = head + tail_[: (60 if T else 40)]
        rq, ro = ctx.newfile("world_req", "json"), ctx.newfile("world_fresh", "json")
        json.dump(requests, open(rq, "w"))
        env = dict(os.environ, PYTHONPATH=VERIF)
        p = subprocess.run([sys.executable, "-m", "harness.world_worker", rq, ro], cwd=VERIF, env=env, stdout=subprocess.PIPE,
                           stderr=subprocess.STDOUT, text=True, timeout=1800)
        if p.returncode != 0 or not os.path.exists(ro):
            raise MachineryError("fresh-process worker failed: " + p.stdout[-1500:])
        fresh = json.load(open(ro))
        trace.append({"kind": "boundary", "f": "fresh-interpreter", "args": 0, "argsAfter": 0, "gvBefore": 0, "gvAfter": 0, "rngBefore": 0,
                      "rngAfter": 0, "res": 0, "alias": False})
        for e in fresh:
            trace.append({"kind": "boundary", "f": "fresh-call-setup", "args": 0, "argsAfter": 0, "gvBefore": 0, "gvAfter": iid(e["gvBefore"]),
                          "rngBefore": 0, "rngAfter": iid(e["rngBefore"]), "res": 0, "alias": False})
            trace.append({"kind": "invoke", "f": e["name"], "args": iid(e["args"]), "argsAfter": iid(e["argsAfter"]), "gvBefore": iid(e["gvBefore"]),
                          "gvAfter": iid(e["gvAfter"]), "rngBefore": iid(e["rngBefore"]), "rngAfter": iid(e["rngAfter"]),
                          "res": iid(e["res"]) if not e["res"].startswith("excValueError") else iid("excValueError"), "alias": False})
            ctx.case(("world-fresh", e["name"]))
        meta = ctx.newfile("world_meta", "json")
        json.dump({"deterministic": det}, open(meta, "w"))
        f = ctx.newfile("world", "ndjson")
        with open(f, "w") as fh:
            for e in trace:
                fh.write(json.dumps(e) + "\n")
        out = ctx.newfile("world_out", "json")
        ctx.tlc("WorldTrace", "SPECIFICATION Spec\nINVARIANT Done\nCHECK_DEADLOCK FALSE\n", env={"IN_FILE": f, "OUT_FILE": out, "META_FILE": meta},
                workers=1, note="world trace", count=False)
        res = json.load(open(out))
        if res["n"] != len(trace):
            raise MachineryError("world trace not fully consumed")
        ctx.traces += 1
        ctx.events += len(trace)
        for idx, clause in res["bad"]:
            e = trace[idx - 1]
            ctx.violation(f"world:{e['f']}:{clause}", f"event {idx} ({e['f']}) breaks {clause}", {"event": e, "index": idx})
    gv.clean()
    ctx.assumptions.append("world histories: digests (sha1 of dtype/shape/bytes) are interned to integers by the harness; "
                           "execution_time, the warnings filter and the tic/toc stack are outside the property and excluded; "
                           "re-seeded calls are repeated in a fresh interpreter and judged by the same memo")
