"""C14 - global grid consistent over any call history; devices pure and seedable.
Spec: GlobalGrid.tla, MC_GlobalGrid.tla (history replay), GlobalGridTrace.tla (stateful trace), World.tla, WorldTrace.tla."""
import random, hashlib, json, warnings, math
import numpy as np
from ..core import deadline, import_repo, MachineryError, Deadline
from ..behav import parse_ev

LEVEL = "model_checking"
CONSTS = ("CONSTANTS SpsVals = {%s}\n RVals = {%s}\n FsVals = {%s}\n NVals = {%s}\n WlVals = {%s}\n Keys = {%s}\n")
FULL = CONSTS % ("8,16", "1000,2000", "8000,16000,32000", "4,10", "1310", '"alpha"')
WIDE = CONSTS % ("4,8,16", "500,1000,2000", "8000,16000,32000", "1,4,10", "1310,1064", '"alpha","beta"')
SMALL = CONSTS % ("8,16", "1000,2000", "16000,32000", "4", "1310", '"alpha"')
PROPS = "INVARIANT GridConsistent\nINVARIANT CleanRestores\nPROPERTY CustomPersists\nPROPERTY NSticky\nCHECK_DEADLOCK FALSE\n"


def opt(x):
    return None if len(x) == 0 else x[0]


def run(ctx):
    ctx.rule = ("case = one gv()/clean() call of a replayed or recorded history, or one library call of a recorded world history; "
                "class = (which keyword arguments were passed, N in effect before, custom present) resp. (function name, outcome class); "
                "non-trivial = the call changed or exercised the grid / returned a value")
    T = ctx.thorough
    import_repo()
    from scipy.constants import c as C_LIGHT
    import opticomlib.typing as typing_mod
    from opticomlib.typing import gv, binary_sequence, electrical_signal, optical_signal
    rnd = random.Random(ctx.seed)

    # ------------------------------------------------------------------ 1. the grid: model checking
    ctx.tlc("GlobalGrid", "SPECIFICATION Spec\n" + PROPS + (WIDE if T else FULL), note="complete reachable state space of gv")
    ctx.exhaustive = True

    def real_state():
        cust = sorted(k for k in vars(gv) if k not in ("sps", "R", "fs", "dt", "wavelength", "f0", "N", "t", "w", "dw"))
        return cust

    def close(a, b, rel=1e-12):
        return abs(a - b) <= rel * max(abs(a), abs(b), 1e-300)

    def compare(spec, key, ev):
        """projection of the real singleton compared with the spec state (all fields of the statement)"""
        fs = spec["fs"] * 1e6
        errs = []
        if gv.sps != spec["sps"] or not isinstance(gv.sps, (int, np.integer)):
            errs.append(f"sps={gv.sps!r}")
        if not close(gv.R, spec["R"] * 1e6):
            errs.append(f"R={gv.R}")
        if not close(gv.fs, fs) or not close(gv.fs, gv.R * gv.sps):
            errs.append(f"fs={gv.fs}")
        if not close(gv.dt, 1 / fs):
            errs.append(f"dt={gv.dt}")
        if not close(gv.wavelength, spec["wl"] * 1e-9) or not close(gv.f0, C_LIGHT / gv.wavelength):
            errs.append(f"wavelength/f0={gv.wavelength}/{gv.f0}")
        N = opt(spec["N"])
        if gv.N != N:
            errs.append(f"N={gv.N}")
        g = opt(spec["grid"])
        if g is None:
            if gv.t is not None or gv.w is not None or gv.dw is not None:
                errs.append("t/w/dw present without N")
        else:
            npts, gfs = g[0], g[1] * 1e6
            if gv.t is None or gv.w is None or gv.dw is None:
                errs.append("t/w/dw missing")
            else:
                if len(gv.t) != npts or len(gv.w) != npts:
                    errs.append(f"len(t)={len(gv.t)},len(w)={len(gv.w)} expected {npts}")
                else:
                    if not close(gv.dw, 2 * math.pi * gfs / npts, 1e-9):
                        errs.append(f"dw={gv.dw}")
                    if not np.allclose(gv.w, 2 * np.pi * np.fft.fftshift(np.fft.fftfreq(npts)) * gfs, rtol=1e-9, atol=1e-3):
                        errs.append("w not on the current fs")
                    if not (gv.t[0] == 0 and close(gv.t[-1], npts / gfs, 1e-9)):
                        errs.append(f"t range {gv.t[0]}..{gv.t[-1]}")
        if sorted(spec["custom"]) != real_state():
            errs.append(f"custom={real_state()}")
        if errs:
            ctx.violation(key, "; ".join(errs), ev)
            return False
        return True

    def do_call(c):
        if c["op"] == "clean":
            gv.clean()
            return
        kw = {}
        if opt(c["sps"]) is not None:
            kw["sps"] = opt(c["sps"])
        if opt(c["R"]) is not None:
            kw["R"] = opt(c["R"]) * 1e6
        if opt(c["fs"]) is not None:
            kw["fs"] = opt(c["fs"]) * 1e6
        if opt(c["wl"]) is not None:
            kw["wavelength"] = opt(c["wl"]) * 1e-9
        if opt(c["N"]) is not None:
            kw["N"] = opt(c["N"])
        for k in c["keys"]:
            kw[k] = 0.5
        with warnings.catch_warnings():
            warnings.simplefilter("ignore")
            gv(**kw)

    def callclass(c, spec_before_N=None):
        if c["op"] == "clean":
            return ("clean",)
        return tuple(k for k in ("sps", "R", "fs", "wl", "N") if opt(c[k]) is not None) + (("custom",) if c["keys"] else ())

    # ------------------------------------------------------------------ 2. replay of every history of length <= 2 (3)
    r = ctx.tlc("MC_GlobalGrid", "SPECIFICATION HSpec\nINVARIANT GridConsistent\nINVARIANT Emit\nCHECK_DEADLOCK FALSE\n" +
                (FULL if T else SMALL) + " MaxHist = 2\n", workers=1, note="all histories of length <= 2 (replayed)", timeout=3000, count=False)
    evs = parse_ev(r.out)
    if len(evs) != r.distinct - 1:
        raise MachineryError(f"parsed {len(evs)} histories of {r.distinct - 1}")
    for ev in evs:
        gv.clean()
        with deadline(30):
            for c in ev["hist"]:
                do_call(c)
        hk = "+".join("/".join(callclass(c)) or "noargs" for c in ev["hist"])
        ctx.case(("hist", hk), {"history": ev["hist"], "state": ev["state"]})
        compare(ev["state"], "gv-history:" + hk, ev)
    ctx.behaviours += len(evs)
    gv.clean()
    # ------------------------------------------------------------------ 3. long random histories, stateful trace validation
    def rand_call():
        if rnd.random() < 0.1:
            return {"op": "clean"}
        def o(vals, p):
            return [rnd.choice(vals)] if rnd.random() < p else []
        for _ in range(100):
            c = {"op": "call", "sps": o([4, 8, 16], .4), "R": o([500, 1000, 2000], .4), "fs": o([8000, 16000, 32000], .3),
                 "wl": o([1310, 1064], .2), "N": o([1, 4, 10], .3), "keys": [k for k in ("alpha", "beta") if rnd.random() < .15]}
            s, R_, f = opt(c["sps"]), opt(c["R"]), opt(c["fs"])
            curR = gv.R / 1e6
            if s is not None:
                ok = True if R_ is not None else (f is None or f % s == 0)
            elif R_ is not None:
                ok = f is None or f % R_ == 0
            else:
                ok = f is None or f % curR == 0
            if ok:
                return c
        return {"op": "clean"}

    def project():
        return {"sps": int(gv.sps), "R": int(round(gv.R / 1e6)), "fs": int(round(gv.fs / 1e6)), "wl": int(round(gv.wavelength * 1e9)),
                "N": [] if gv.N is None else [int(gv.N)],
                "grid": [] if gv.t is None else [[len(gv.t), int(round(gv.dw * len(gv.t) / (2 * math.pi) / 1e6))]],
                "custom": real_state()}

    ntr = 40 if T else 8
    for tr in range(ntr):
        gv.clean()
        trace = []
        for _ in range(60):
            c = rand_call()
            with deadline(30):
                do_call(c)
            st = project()
            # the projection above is lossy on purpose (integers for TLC); the float-level fields are compared here
            spec_like = dict(st)
            if not (close(gv.dt, 1 / gv.fs) and close(gv.f0, C_LIGHT / gv.wavelength) and close(gv.fs, gv.R * gv.sps) and
                    (gv.w is None or (len(gv.w) == len(gv.t) and np.allclose(gv.w, 2 * np.pi * np.fft.fftshift(np.fft.fftfreq(len(gv.w))) * gv.fs, rtol=1e-9, atol=1e-3)))):
                ctx.violation("gv-trace:derived-fields", "dt/f0/fs/w inconsistent with the values in force", {"call": c, "state": st})
            trace.append({**c, "state": st} if c["op"] == "call" else {"op": "clean", "state": st})
            ctx.case(("trace",) + callclass(c))
        f = ctx.newfile("gvtrace", "ndjson")
        with open(f, "w") as fh:
            for e in trace:
                fh.write(json.dumps(e) + "\n")
        out = ctx.newfile("gvtrace_out", "json")
        ctx.tlc("GlobalGridTrace", "SPECIFICATION TraceSpec\nINVARIANT Report\nCHECK_DEADLOCK FALSE\n" + WIDE,
                env={"IN_FILE": f, "OUT_FILE": out}, workers=1, note="gv trace", count=False)
        res = json.load(open(out))
        ctx.traces += 1
        ctx.events += len(trace)
        if res["matched"] != res["n"]:
            bad = trace[res["matched"]]
            ctx.violation("gv-trace:" + "/".join(callclass(bad)), f"event {res['matched'] + 1} of a recorded gv history is not a step of GlobalGrid: {bad}",
                          {"trace": trace[:res["matched"] + 1]})
    gv.clean()
    # ------------------------------------------------------------------ 4. purity of the library functions (World)
    ctx.tlc("World", "SPECIFICATION Spec\nPROPERTY Reproducible\nCHECK_DEADLOCK FALSE\nCONSTANTS Funcs = {\"det\",\"rand\"}\n "
            "Deterministic = {\"det\"}\n Digests = {1,2}\n ArgVals = {%s}\n" % ("1,2" if T else "1"), note="world design spec (sanity instance)", timeout=3000)
    world(ctx, rnd, T)


def world(ctx, rnd, T):
    import opticomlib.devices as dv
    import opticomlib.ppm as ppm
    import opticomlib.ook as ook
    import opticomlib.utils as ut
    from opticomlib.typing import gv, binary_sequence, electrical_signal, optical_signal, eye

    intern = {}

    def iid(s):
        return intern.setdefault(s, len(intern) + 1)

    def arrays_of(x, acc):
        if isinstance(x, np.ndarray):
            acc.append(x)
        elif isinstance(x, (electrical_signal,)):
            acc.append(x.signal)
            if x.noise is not None:
                acc.append(x.noise)
        elif isinstance(x, binary_sequence):
            acc.append(x.data)
        elif isinstance(x, eye):
            for v in vars(x).values():
                arrays_of(v, acc)
        elif isinstance(x, (list, tuple)):
            for v in x:
                arrays_of(v, acc)
        elif isinstance(x, dict):
            for v in x.values():
                arrays_of(v, acc)
        return acc

    def dig(x):
        h = hashlib.sha1()
        def upd(v):
            if isinstance(v, np.ndarray):
                h.update(str((v.dtype, v.shape)).encode()); h.update(np.ascontiguousarray(v).tobytes())
            elif isinstance(v, electrical_signal):
                h.update(type(v).__name__.encode()); h.update(str(getattr(v, "n_pol", None)).encode()); upd(v.signal); upd(v.noise)
            elif isinstance(v, binary_sequence):
                h.update(b"bs"); upd(v.data)
            elif isinstance(v, eye):
                for k in sorted(vars(v)):
                    if k != "execution_time":
                        h.update(k.encode()); upd(getattr(v, k))
            elif isinstance(v, (list, tuple)):
                h.update(b"seq"); [upd(i) for i in v]
            elif isinstance(v, dict):
                for k in sorted(v):
                    h.update(str(k).encode()); upd(v[k])
            else:
                h.update(repr(v).encode())
        upd(x)
        return h.hexdigest()

    def gv_digest():
        return iid("gv" + dig({k: v for k, v in vars(gv).items()}))

    def rng_digest():
        st = np.random.get_state()
        return iid("rng" + dig([st[1], st[2], st[3], st[4]]))

    def protect(x):
        for a in arrays_of(x, []):
            a.flags.writeable = False
        return x

    # shared inputs (rebuilt for each gv configuration)
    def inputs():
        sps = gv.sps
        bits = protect(dv.PRBS(7, 64))
        x = protect(dv.DAC(bits, Vout=2.0, bias=0.5))
        t = protect(np.arange(64 * sps) * gv.dt)
        rs = np.random.RandomState(5)
        fld = (rs.randn(64 * sps) + 1j * rs.randn(64 * sps)) * 0.03
        o1 = protect(optical_signal(0.05 * np.exp(1j * 0.3 * np.arange(64 * sps) / sps) + 0 * fld, 0.1 * fld))
        o2 = protect(optical_signal(np.array([0.04 + fld, 0.5 * fld + 0.02j]), np.array([0.1 * fld, 0.05 * fld.conj()])))
        mod = protect(dv.MZM(optical_signal(np.ones(64 * sps) * 0.03), x, bias=2.5, Vpi=5.0))
        np.random.seed(11)
        rx = protect(electrical_signal(x.signal * 0.01, 2e-4 * np.random.randn(64 * sps)))
        ppmbits = protect(ppm.PPM_ENCODER(bits, 4))
        ppmwave = protect(dv.DAC(ppmbits))
        slots = protect(binary_sequence(np.random.RandomState(3).randint(0, 2, 64)))
        ey = dv.GET_EYE(rx, sps_resamp=32)
        return dict(bits=bits, x=x, t=t, o1=o1, o2=o2, mod=mod, rx=rx, ppmbits=ppmbits, ppmwave=ppmwave, slots=slots, eye=ey)

    F = {  # name -> (args builder, callable, weight)
        "PRBS": (lambda I: (9, 100, 5), lambda a: dv.PRBS(*a), 3),
        "DAC-nrz": (lambda I: (I["bits"],), lambda a: dv.DAC(a[0], 0.1, 1.5, "nrz"), 3),
        "DAC-gauss": (lambda I: (I["bits"],), lambda a: dv.DAC(a[0], 0.0, 1.0, "gaussian", m=2), 2),
        "DAC-bw": (lambda I: (I["bits"],), lambda a: dv.DAC(a[0], BW=0.75 * gv.R), 2),
        "LASER-cw": (lambda I: (I["t"],), lambda a: dv.LASER(a[0], 3.0, df=0.1 * gv.R), 2),
        "LASER-noisy": (lambda I: (I["t"],), lambda a: dv.LASER(a[0], 3.0, lw=1e6, rin=-150), 2),
        "PM": (lambda I: (I["o1"], I["x"].signal), lambda a: dv.PM(a[0], a[1], 4.0), 2),
        "MZM": (lambda I: (I["o2"], I["x"]), lambda a: dv.MZM(a[0], a[1], bias=1.0, Vpi=4.0, loss_dB=2, ER_dB=20, pol="y"), 3),
        "MZM-bw": (lambda I: (I["o1"], I["x"]), lambda a: dv.MZM(a[0], a[1], BW=2 * gv.R), 1),
        "BPF": (lambda I: (I["o2"],), lambda a: dv.BPF(a[0], 1.5 * gv.R), 2),
        "EDFA": (lambda I: (I["o1"],), lambda a: dv.EDFA(a[0], 20, 5), 3),
        "EDFA-bw": (lambda I: (I["o2"],), lambda a: dv.EDFA(a[0], 15, 4, BW=3 * gv.R), 1),
        "DM": (lambda I: (I["o2"],), lambda a: dv.DM(a[0], 30.0), 2),
        "DM-retH": (lambda I: (I["o1"],), lambda a: dv.DM(a[0], -20.0, True), 1),
        "FIBER-lin": (lambda I: (I["o2"],), lambda a: dv.FIBER(a[0], 10, 0.2, -20, 0.1, 0), 2),
        "FIBER-nl": (lambda I: (I["o2"],), lambda a: dv.FIBER(a[0], 5, 0.2, -20, 0.0, 2.0, 0.05), 1),
        "LPF": (lambda I: (I["rx"],), lambda a: dv.LPF(a[0], 0.7 * gv.R), 2),
        "LPF-array": (lambda I: (I["rx"].signal,), lambda a: dv.LPF(a[0], 0.7 * gv.R, retH=True), 1),
        "PD-all": (lambda I: (I["mod"],), lambda a: dv.PD(a[0], gv.R), 3),
        "PD-ase": (lambda I: (I["o2"],), lambda a: dv.PD(a[0], gv.R, include_noise="ase-only"), 2),
        "ADC": (lambda I: (I["rx"],), lambda a: dv.ADC(a[0], n=4), 2),
        "GET_EYE": (lambda I: (I["rx"],), lambda a: dv.GET_EYE(a[0], sps_resamp=32), 1),
        "SAMPLER": (lambda I: (I["rx"],), lambda a: dv.SAMPLER(a[0], gv.sps // 2), 2),
        "PPM_ENCODER": (lambda I: (I["bits"],), lambda a: ppm.PPM_ENCODER(a[0], 8), 2),
        "PPM_DECODER": (lambda I: (I["ppmbits"],), lambda a: ppm.PPM_DECODER(a[0], 4), 2),
        "HDD": (lambda I: (I["slots"],), lambda a: ppm.HDD(a[0], 4), 3),
        "SDD": (lambda I: (I["ppmwave"],), lambda a: ppm.SDD(a[0], 4), 2),
        "ppm.DSP-soft": (lambda I: (I["ppmwave"],), lambda a: ppm.DSP(a[0], 4, "soft"), 1),
        "ppm.DSP-hard": (lambda I: (I["ppmwave"],), lambda a: ppm.DSP(a[0], 4, "hard", threshold=0.5), 1),
        "ook.THRESHOLD_EST": (lambda I: (I["eye"],), lambda a: ook.THRESHOLD_EST(a[0]), 1),
        "ppm.THRESHOLD_EST": (lambda I: (I["eye"],), lambda a: ppm.THRESHOLD_EST(a[0], 4), 1),
        "ook.BER_counter": (lambda I: (I["bits"], I["slots"]), lambda a: ook.BER_analizer("counter", Tx=a[0], Rx=a[1]), 1),
        "ppm.BER_estimator": (lambda I: (I["eye"],), lambda a: ppm.BER_analizer("estimator", eye_obj=a[0], M=4), 1),
        "ook.theory_BER": (lambda I: (np.array([1.0, 2.0]),), lambda a: ook.theory_BER(a[0], 0.1, 0.2), 1),
        "utils.mix": (lambda I: (I["rx"].signal,), lambda a: [ut.db(np.abs(a[0]) + 1), ut.Q(a[0]), ut.shortest_int(a[0], 50), ut.dec2bin(5, 4), ut.str2array("1,2;3,4")], 2),
        "utils.noise_variances": (lambda I: (-20.0,), lambda a: ut.noise_variances(a[0], "ppm", 4, 10, True, 1550e-9, 20, 5, 50e9), 1),
    }
    RANDOM = {"LASER-noisy", "EDFA", "EDFA-bw", "PD-all", "HDD", "GET_EYE"}
    det = sorted(set(F) - RANDOM)
    names = [n for n, v in F.items() for _ in range(v[2])]
    ntr, nlen = (12, 250) if T else (3, 110)
    for tr in range(ntr):
        gv.clean()
        with warnings.catch_warnings():
            warnings.simplefilter("ignore")
            gv(sps=rnd.choice([8, 16]), R=rnd.choice([1e9, 2.5e9]))
            I = inputs()
        np.random.seed(rnd.randrange(1000))
        trace = []
        recent = []
        for step in range(nlen):
            gb, rb = gv_digest(), rng_digest()
            u = rnd.random()
            if u < 0.12:
                s = rnd.choice([0, 1, 2])
                np.random.seed(s)
                trace.append({"kind": "seed", "f": f"seed{s}", "args": 0, "argsAfter": 0, "gvBefore": gb, "gvAfter": gv_digest(),
                              "rngBefore": rb, "rngAfter": rng_digest(), "res": 0, "alias": False})
                continue
            if u < 0.16:
                with warnings.catch_warnings():
                    warnings.simplefilter("ignore")
                    gv(sps=rnd.choice([8, 16]), R=rnd.choice([1e9, 2.5e9]), N=rnd.choice([None, 64]))
                    rs = np.random.get_state()
                    I = inputs()                      # inputs follow the grid; built outside the monitored history
                    np.random.set_state(rs)
                trace.append({"kind": "gv", "f": "gv", "args": 0, "argsAfter": 0, "gvBefore": gb, "gvAfter": gv_digest(),
                              "rngBefore": rb, "rngAfter": rng_digest(), "res": 0, "alias": False})
                continue
            name = rnd.choice(recent) if (recent and rnd.random() < 0.3) else rnd.choice(names)
            recent = (recent + [name])[-6:]
            build, fn, _ = F[name]
            args = build(I)
            akey = iid("a" + dig(args))
            alias = False
            try:
                with warnings.catch_warnings():
                    warnings.simplefilter("ignore")
                    with deadline(120):
                        res = fn(args)
                rkey = iid("r" + dig(res))
                ina = arrays_of(args, [])
                alias = any(np.shares_memory(x, y) for x in arrays_of(res, []) for y in ina)
            except Deadline:
                ctx.violation(f"world:{name}:hang", "call did not return within 120 s", {"function": name})
                continue
            except ValueError as e:
                if "read-only" in str(e):
                    ctx.violation(f"world:{name}:argument-modified", f"{name} tried to write into its (write-protected) argument: {e}", {"function": name})
                    continue
                rkey = iid("exc" + type(e).__name__)
            except Exception as e:
                rkey = iid("exc" + type(e).__name__ + str(e)[:80])
            trace.append({"kind": "invoke", "f": name, "args": akey, "argsAfter": iid("a" + dig(args)), "gvBefore": gb, "gvAfter": gv_digest(),
                          "rngBefore": rb, "rngAfter": rng_digest(), "res": rkey, "alias": bool(alias)})
            ctx.case(("world", name, "rand" if name in RANDOM else "det"), {"call": name, "gv": [gv.sps, gv.R]} if tr == 0 else None)
        meta = ctx.newfile("world_meta", "json")
        json.dump({"deterministic": det}, open(meta, "w"))
        f = ctx.newfile("world", "ndjson")
        with open(f, "w") as fh:
            for e in trace:
                fh.write(json.dumps(e) + "\n")
        out = ctx.newfile("world_out", "json")
        ctx.tlc("WorldTrace", "SPECIFICATION Spec\nINVARIANT Done\nCHECK_DEADLOCK FALSE\n", env={"IN_FILE": f, "OUT_FILE": out, "META_FILE": meta},
                workers=1, note="world trace", count=False)
        res = json.load(open(out))
        if res["n"] != len(trace):
            raise MachineryError("world trace not fully consumed")
        ctx.traces += 1
        ctx.events += len(trace)
        for idx, clause in res["bad"]:
            e = trace[idx - 1]
            ctx.violation(f"world:{e['f']}:{clause}", f"event {idx} ({e['f']}) breaks {clause}", {"event": e, "index": idx})
    gv.clean()
    ctx.assumptions.append("world histories: digests (sha1 of dtype/shape/bytes) are interned to integers by the harness; "
                           "execution_time, the warnings filter and the tic/toc stack are outside the property and excluded")
