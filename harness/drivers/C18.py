"""C18 - ADC is a true n-bit quantiser; shortest_int returns a shortest covering interval.
Spec: Quantiser.tla, QuantiserModel.tla, QuantiserTrace.tla."""
import itertools, random, warnings
import numpy as np
from ..core import deadline, import_repo, protect

LEVEL = "model_checking"


def run(ctx):
    ctx.rule = ("case = one shortest_int / ADC call on integer-valued data validated by TLC; class = (function, length class, "
                "tie pattern class, percentage or (n, otype), scale, outliers present); non-trivial = the call returned")
    T = ctx.thorough
    cfg = ("SPECIFICATION Spec\nINVARIANT IntervalOK\nINVARIANT AtMost2nValues\nINVARIANT Saturates\nINVARIANT EndCodes\nCHECK_DEADLOCK FALSE\n"
           "CONSTANTS MaxLen = %d\n MaxVal = 4\n Ps = {10,20,30,40,50,60,70,80,90}\n Ns = {1,2,3}\n" % (7 if T else 6))
    ctx.tlc("QuantiserModel", cfg, note="every sorted data set with ties, every p, n", timeout=3000, actions=["PickInterval", "Quantise"])
    ctx.exhaustive = True
    import_repo()
    from opticomlib.utils import shortest_int
    from opticomlib.devices import ADC
    from opticomlib.typing import electrical_signal
    rnd = random.Random(ctx.seed)
    events, meta = [], []

    def si_event(data, pnum, pden, scale):
        arr = np.array(data, dtype=float) * scale
        rnd.shuffle(data)
        with deadline(60):
            ret = shortest_int(protect(np.array(data, dtype=float) * scale), pnum / pden)
        ret = np.asarray(ret, dtype=float).ravel()
        if ret.size != 2:
            ret = np.array([np.nan, np.nan])
        lo_i, hi_i = float(ret[0]) / scale, float(ret[1]) / scale
        if not (np.isfinite(lo_i) and np.isfinite(hi_i)):
            lo_i = hi_i = 0.5                 # malformed result: reported by TLC as "not order statistics"
        ok = abs(lo_i - round(lo_i)) < 1e-6 and abs(hi_i - round(hi_i)) < 1e-6
        events.append({"kind": "si", "s": sorted(int(v) for v in data), "pnum": pnum, "pden": pden,
                       "lo": int(round(lo_i)) if ok else -10 ** 9, "hi": int(round(hi_i)) if ok else -10 ** 9})

    # exhaustive small data sets (ties!) x percentages
    for L in range(2, 8 if T else 7):
        for data in itertools.combinations_with_replacement(range(5), L):
            for p in (10, 20, 30, 40, 50, 60, 70, 80, 90):
                if (L * p) // 100 < 1:
                    continue
                sc = [1.0, 2.0 ** -36, 2.0 ** 10][(L + p // 10) % 3]
                si_event(list(data), p, 1, sc)
                meta.append(("si", L, p))
                ctx.case(("si", L, len(set(data)) < L, p, sc), {"shortest_int": [list(data), p, sc]} if L == 5 else None)
    # lengths and integer percentages where p*len/100 is an exact integer (the floor must not lose one)
    for n in (20, 50, 90, 100, 200, 300):
        for p in range(1, 100):
            if (n * p) % 100 == 0 and (n * p) // 100 >= 1 and (p % 7 == 1 or n in (100, 50) or T):
                rs = np.random.RandomState(n + p)
                si_event([int(v) for v in np.round(rs.randn(n) * 50)], p, 1, 1.0)
                meta.append(("si-exact-lag", n, p))
                ctx.case(("si-exact-lag", n, p % 10))
    # long records
    for k in range(200 if T else 20):
        n = rnd.choice([10, 101, 1000, 4097, 10001, 2 ** 15 + 3] + ([2 ** 17] if T else []))
        dist = rnd.choice(["gauss", "uniform", "sine", "quantised"])
        p = rnd.choice([(50, 1), (25, 1), (90, 1), (10, 1), (9999, 100), (1, 1), (99, 1)]) if k % 4 else [(9, 10), (1, 2), (1, 4), (3, 4)][(k // 4) % 4]   # also coverages below 1 %
        if p[1] != 1 and p[0] < p[1] and k % 8:
            n = max(n, rnd.choice([1000, 4097, 10001]))
        rs = np.random.RandomState(k)
        if dist == "gauss":
            x = np.round(rs.randn(n) * 300)
        elif dist == "uniform":
            x = np.round(rs.uniform(-1000, 1000, n))
        elif dist == "sine":
            x = np.round(500 * np.sin(np.arange(n) * 0.37))
        else:
            x = np.round(rs.randn(n) * 3)
        if (n * p[0]) % (100 * p[1]) == 0 and p[1] != 1:
            continue                                  # p*len/100 an exact integer reached through a non-representable percentage: floor ambiguous in floating point
        sc = rnd.choice([1.0, 2.0 ** -20, 2.0 ** -36, 2.0 ** 10])
        si_event([int(v) for v in x], p[0], p[1], sc)
        meta.append(("si-long", n, p))
        ctx.case(("si-long", dist, n > 10000, p, sc, (n * p[0]) // (100 * p[1]) == 0))
    # coverage below one sample: lag = 0, the pair degenerates to a single data value
    for data, p_ in (([3, 1, 2, 5, 4], 10), ([7], 50), ([2, 2, 9], 30), (list(range(10)), 9), ([4, 4, 4, 4], 20)):
        si_event(list(data), p_, 1, 1.0)
        meta.append(("si-lag0", len(data), p_))
        ctx.case(("si-lag0", len(data), p_))
    # ADC
    def adc_event(x, n, otype, scale, as_signal):
        arr = np.array(x, dtype=float) * scale
        if as_signal >= 3 and scale == 1.0 and np.abs(arr).max() < 120:
            # raw integer counts in a narrow integer dtype (int16 / int8, uint8 when non-negative)
            arr = arr.astype(np.uint8 if (as_signal == 4 and arr.min() >= 0) else (np.int8 if as_signal == 5 else np.int16))
        inp = protect(electrical_signal(arr) if as_signal == 1 else (electrical_signal(arr * 0.5, arr * 0.5) if as_signal == 2 else arr))
        with deadline(120):
            out = ADC(inp, n=n, otype=otype)
        o = np.asarray(out.signal, dtype=float)
        y = o if otype == "n" else o / scale * (2 ** n - 1)
        ok = o.shape == arr.shape and np.all(np.isfinite(y)) and np.all(np.abs(y - np.round(y)) < 1e-5 * max(1, np.abs(y).max()))
        events.append({"kind": "adc", "x": [int(v) for v in x], "s": sorted(int(v) for v in x), "n": n, "otype": otype,
                       "out": [int(round(v)) for v in y] if ok else [-10 ** 9] * max(len(o.ravel()), 1)})
    for L in range(2, 7):
        for data in itertools.combinations_with_replacement(range(5), L):
            if len(set(data)) < 2:
                continue
            d = list(data)
            rnd.shuffle(d)
            for n in (1, 2, 3, 16, 5, 8):
                if n > 3 and (sum(d) + L) % 4:
                    continue
                ot = "n" if (L + n) % 2 else "v"
                adc_event(d, n, ot, [1.0, 1.0, 2.0 ** -70][(L + sum(d)) % 3], (L + n + sum(d)) % 6)
                meta.append(("adc", L, n, ot))
                ctx.case(("adc-small", L, n, ot), {"ADC": [d, n, ot]} if L == 4 else None)
    for k in range(150 if T else 14):
        n = rnd.choice([2, 50, 1000, 9999, 10001, 20001, 2 ** 15 + 1] + ([2 ** 17] if T else []))
        if k in (0, 1):
            n = 70001                  # records beyond 2^16 samples in every run (one with outliers, one without)
        rs = np.random.RandomState(100 + k)
        dist = rnd.choice(["gauss", "uniform", "sine", "quantised"]) if k > 1 else "gauss"
        x = {"gauss": lambda: np.round(rs.randn(n) * 200), "uniform": lambda: np.round(rs.uniform(-500, 500, n)),
             "sine": lambda: np.round(400 * np.sin(np.arange(n) * 0.11)), "quantised": lambda: np.round(rs.randn(n) * 2)}[dist]()
        outl = n >= 10001 and rnd.random() < 0.8
        if k in (0, 1):
            outl = k == 0
        if outl:
            x[rs.randint(0, n)] = 5000
            x[rs.randint(0, n)] = -7000
        if len(set(x.tolist())) < 2 or (n * 9999) % 10000 == 0:
            continue
        srt = np.sort(x)
        lag = (n * 9999) // 10000
        if np.min(srt[lag:] - srt[:n - lag]) == 0:
            continue          # degenerate full scale (hi = lo): outside the statement
        bits, ot = rnd.choice([1, 2, 4, 8, 12, 16, 15, 17]), rnd.choice(["n", "v"])
        if k in (0, 1):
            bits, ot = 12, "n"                       # the record beyond 2^16 samples is always judged at a fine resolution
        if dist == "quantised" and k % 2:
            adc_event([int(v) for v in x], bits, ot, 1.0, 3 + k % 3)        # small integer counts in int16 / uint8 / int8 arrays
        else:
            adc_event([int(v) for v in x], bits, ot, rnd.choice([1.0, 2.0 ** -20, 2.0 ** 10, 2.0 ** -60, 2.0 ** -100]), rnd.randrange(3))      # swings down to 1e-27
        meta.append(("adc-long", n, bits, ot))
        ctx.case(("adc-long", dist, n >= 10001, bits, ot, outl))
    # ---- sampling rates that are not a whole number of hertz, record lengths of every residue: the output has the input's length
    from opticomlib.typing import gv as _gv
    with warnings.catch_warnings():
        warnings.simplefilter("ignore")
        _gv(sps=16, R=10.3125e9 * 255 / 237)
    for L_ in list(range(20, 130)) + [206, 255, 1000, 1001]:
        xs_ = np.sin(np.arange(L_) * 0.7) * 3 + 0.25
        with deadline(60):
            o_ = np.asarray(ADC(protect(electrical_signal(xs_)) if L_ % 2 else protect(xs_.copy()), n=4).signal)
        if o_.shape != xs_.shape:
            events.append({"kind": "adcstat", "n": 4, "distinct": int(len(np.unique(o_))), "len_ok": False, "finite": True, "inside": True, "sat_ok": True})
            meta.append(("adcstat", L_, 4, "v"))
    ctx.case(("adc-lengths-noninteger-fs",), None)
    _gv.clean()
    # ---- data that are not dyadic (0.65, -0.3, 1e25 ...): exact integer replay is impossible, the statement's countable clauses are
    #      observed by the harness (membership, counts) and judged by TLC
    for k in range(120 if T else 30):
        rs = np.random.RandomState(900 + k)
        n = [12, 101, 1000, 20001, 50001][k % 5]
        x = np.round(rs.randn(n) * [0.37, 1.3, 250.0][k % 3], 2) + [0.65, -0.3, 0.1][(k // 3) % 3]        # decimal data: sums and differences round
        p_ = [50.0, 99.99, 10.0, 33.3, 0.7][k % 5]
        with deadline(60):
            lo, hi = [float(v) for v in np.asarray(shortest_int(protect(x.copy()), p_)).ravel()[:2]]
        lag = int(n * p_ / 100)
        events.append({"kind": "sistat", "lo_in": bool(np.any(x == lo)), "hi_in": bool(np.any(x == hi)), "covered": int(np.sum((x >= lo) & (x <= hi))), "lag": lag, "ordered": bool(lo <= hi)})
        meta.append(("sistat", n, p_))
        ctx.case(("si-decimal", n, p_))
        if n >= 1000:
            bits_, ot = [1, 2, 3, 8][k % 4], ["v", "n"][(k // 2) % 2]
            xg = x.copy()
            glitch = [1e25, 1e12, 1e9, 40.0 * max(1.0, float(np.abs(x).max()))][k % 4]
            perm_ = rs.permutation(n)
            idx_hi, idx_lo = perm_[:3], perm_[3:6]
            xg[idx_hi] = glitch
            xg[idx_lo] = -glitch if k % 2 else float(x.min() - 35.0 * max(1.0, np.abs(x).max()))       # far below everything else
            with warnings.catch_warnings():
                warnings.simplefilter("ignore")
                with deadline(120):
                    out = np.asarray(ADC(protect(xg.copy()) if k % 3 else protect(electrical_signal(xg.copy())), n=bits_, otype=ot).signal, dtype=float)
                    vlo, vhi = [float(v) for v in np.asarray(shortest_int(xg, 99.99)).ravel()[:2]]
            top = (2 ** bits_ - 1) if ot == "n" else vhi
            bot = 0.0 if ot == "n" else vlo
            tol_ = 0.0 if ot == "n" else 1e-9 * (vhi - vlo)          # volts are reconstructed as code*step + V_min: equal to the rails up to rounding
            fin_ = bool(np.all(np.isfinite(out)))
            events.append({"kind": "adcstat", "n": bits_, "distinct": int(len(np.unique(out))), "len_ok": bool(out.shape == xg.shape), "finite": fin_,
                           "inside": bool(np.all(out >= bot - tol_) and np.all(out <= top + tol_)) if fin_ else False,
                           "sat_ok": bool(fin_ and np.all(out[idx_hi] == out.max()) and np.all(out[idx_lo] == out.min()) and abs(out.max() - top) <= tol_ and abs(out.min() - bot) <= tol_)})
            meta.append(("adcstat", n, bits_, ot))
            ctx.case(("adc-decimal", n, bits_, ot, k % 4))
    B = 400
    for i in range(0, len(events), B):
        for idx, clause in ctx.validate("QuantiserTrace", events[i:i + B], note="shortest_int / ADC events", timeout=3000):
            m = meta[i + idx - 1]
            ev = events[i + idx - 1]
            small = {k: (v if not isinstance(v, list) or len(v) < 50 else v[:50] + ["..."]) for k, v in ev.items()}
            ctx.violation(f"{m[0]}:{clause}", f"event {m} rejected: {clause}", {"event": small})
