"""C01 - signal containers keep their shape/noise contract; operands never touched.
Spec: Signals.tla (+Arith, PySlice), MC_Signals.tla, SignalsCtor.tla, SignalsTrace.tla."""
import random, hashlib
import numpy as np
from ..core import deadline, import_repo, MachineryError
from ..behav import parse_ev

LEVEL = "model_checking"
INVS = ("INVARIANT AllShapeOK\nINVARIANT ClassKept\nINVARIANT LenLaw\nINVARIANT TotalLaw\nINVARIANT NoiseIffMul\n"
        "INVARIANT RejectOnlyMismatch\nINVARIANT SliceExact\nPROPERTY AppendOnly\nCHECK_DEADLOCK FALSE\n")


def opt(x):
    return None if len(x) == 0 else x[0]


def run(ctx):
    ctx.rule = ("case = one public call (constructor form, operator with object/literal operand, slice, index, copy, transform) "
                "replayed from a TLC state or validated by TLC; class = (op, class, layout of self, noise pattern, operand kind, "
                "length relation, raised?); non-trivial = the call returned an object")
    T = ctx.thorough
    import_repo()
    from opticomlib.typing import electrical_signal, optical_signal
    rnd = random.Random(ctx.seed)
    CLS = {"E": electrical_signal, "O": optical_signal}

    # ------------------------------------------------------------ helpers: spec object <-> real object
    def arr(rows, k=0):
        a = np.array([[complex(v[0], v[1]) for v in r] for r in rows])
        if np.all(a.imag == 0):
            a = a.real.astype([np.int64, np.float64, np.complex128][k % 3])
        return a

    def build(o, k=0):
        sig = arr(o["sig"], k)
        noise = arr(o["noise"], k + 1) if o["hasnoise"] else None
        if o["npol"] == 1:
            sig, noise = sig[0], (None if noise is None else noise[0])
        obj = CLS[o["cls"]](sig, noise)
        for a in (obj.signal, obj.noise):
            if a is not None:
                a.flags.writeable = False
        return obj

    def arrays(obj):
        return [a for a in (obj.signal, obj.noise) if a is not None]

    def digest(obj):
        return [hashlib.sha1(np.ascontiguousarray(a).tobytes()).hexdigest() + str(a.dtype) + str(a.shape) for a in arrays(obj)] + [getattr(obj, "n_pol", None)]

    def pairs(a):
        a = np.atleast_2d(np.asarray(a))
        if not np.all(np.isfinite(a)) or not np.all(a.real == np.round(a.real)) or not np.all(a.imag == np.round(a.imag)):
            return [[[0, 0] for v in row] for row in a]      # non-integral values (products/transforms): shape only
        return [[[int(v.real), int(v.imag)] for v in row] for row in a]

    def describe(res):
        """observed object in the spec's record format (shape is taken from the arrays, n_pol from the attribute)"""
        cls = "E" if type(res) is electrical_signal else ("O" if type(res) is optical_signal else "?")
        sig = np.asarray(res.signal)
        rows_ok = sig.ndim in (1, 2)
        npol = getattr(res, "n_pol", 1) if cls == "O" else 1
        s = pairs(sig) if rows_ok else None
        n = pairs(res.noise) if (res.noise is not None and np.asarray(res.noise).ndim in (1, 2)) else None
        layout_ok = rows_ok and ((sig.ndim == 1 and npol == 1) or (sig.ndim == 2 and npol == 2 and sig.shape[0] == 2)) \
            and (res.noise is None or np.asarray(res.noise).shape == sig.shape) and len(res) == sig.shape[-1] and res.len() == sig.shape[-1] \
            and sig.shape[-1] >= 1
        return {"cls": cls, "npol": npol if npol in (1, 2) else 0, "sig": s if s is not None else [[]],
                "noise": n if n is not None else [], "hasnoise": res.noise is not None, "any": False, "layout_ok": bool(layout_ok)}

    def literal(kind, rows):
        vals = [complex(v[0], v[1]) for v in rows[0]]
        iscx = any(v.imag != 0 for v in vals)
        py = [v if iscx else (int(v.real)) for v in vals]
        if kind == "int":
            return int(vals[0].real)
        if kind == "float":
            return float(vals[0].real)
        if kind == "complex":
            return vals[0]
        if kind == "npscalar":
            return np.complex128(vals[0]) if iscx else np.float64(vals[0].real)
        if kind == "list":
            return list(py)
        if kind == "tuple":
            return tuple(py)
        if kind == "ndarray":
            return np.array(py)
        if kind == "str":
            def f(v):
                if not iscx:
                    return str(int(v.real))
                return f"{int(v.real)}{'+' if v.imag >= 0 else '-'}{abs(int(v.imag))}j"
            s = ", ".join(f(v) for v in vals)
            return s
        if kind == "list2d":
            return [[complex(v[0], v[1]) for v in r] for r in rows]
        raise MachineryError(kind)

    def apply_bin(op, a, other):
        if op == "add":
            return a + other
        if op == "sub":
            return a - other
        if op == "mul":
            return a * other
        if isinstance(other, (electrical_signal,)):
            return {"radd": a.__radd__, "rsub": a.__rsub__, "rmul": a.__rmul__}[op](other)
        if op == "radd":
            return other + a
        if op == "rsub":
            return other - a
        return other * a

    def same_values(res, want, key, ev, total_only):
        d = describe(res)
        if not d["layout_ok"] or d["cls"] != want["cls"] or d["npol"] != want["npol"] or d["hasnoise"] != want["hasnoise"] \
                or len(d["sig"][0]) != len(want["sig"][0]):
            ctx.violation(key + ":shape-class-noise", f"observed {d['cls']}/npol={d['npol']}/len={len(d['sig'][0])}/noise={d['hasnoise']}"
                          f" layout_ok={d['layout_ok']}, spec {want['cls']}/{want['npol']}/{len(want['sig'][0])}/{want['hasnoise']}", ev)
            return
        if want["any"]:
            return
        def tot(o):
            s = np.array([[complex(*v) for v in r] for r in o["sig"]])
            return s + np.array([[complex(*v) for v in r] for r in o["noise"]]) if o["hasnoise"] else s
        if total_only:
            if not np.array_equal(tot(d), tot(want)):
                ctx.violation(key + ":total-field", "signal+noise of the result differs from the spec", ev)
        elif d["sig"] != want["sig"] or (want["hasnoise"] and d["noise"] != want["noise"]):
            ctx.violation(key + ":exact-samples", "selected samples differ from the spec", ev)

    nrep = [0]

    def replay(ev):
        last, heap = ev["last"], ev["heap"]
        op, args, raised = last["op"], last["args"], last["raised"]
        if op == "init":
            return
        nrep[0] += 1
        pre = heap if raised else heap[:-1]
        objs = [build(o, nrep[0] + i) for i, o in enumerate(pre)]
        before = [digest(o) for o in objs]
        a = objs[args[0] - 1]
        A = pre[args[0] - 1]
        kind = "obj"
        key = f"{op}:{A['cls']}{A['npol']}"
        try:
            with deadline(30):
                if op in ("add", "radd", "sub", "rsub", "mul", "rmul"):
                    if len(args) == 2:
                        other = objs[args[1] - 1]
                        B = pre[args[1] - 1]
                        rel = "len1" if len(B["sig"][0]) == 1 else ("eq" if len(B["sig"][0]) == len(A["sig"][0]) else "mismatch")
                        nz = (A["hasnoise"], B["hasnoise"])
                    else:
                        kind = args[1]
                        other = literal(kind, args[2])
                        rel = "len1" if len(args[2][0]) == 1 else ("eq" if len(args[2][0]) == len(A["sig"][0]) else "mismatch")
                        nz = (A["hasnoise"], False)
                    key += f":{kind}:{rel}:noise={int(nz[0])}{int(nz[1])}"
                    res = apply_bin(op, a, other)
                elif op == "slice":
                    res = a[slice(opt(args[1]), opt(args[2]), opt(args[3]))]
                elif op == "index":
                    res = a[args[1]]
                elif op == "copy":
                    res = a.copy(opt(args[1]))
                elif op == "transform":
                    res = a(args[1], args[2])
                else:
                    raise MachineryError(op)
            got = None
        except ValueError as e:
            got, res = "ValueError", None
        except MachineryError:
            raise
        except Exception as e:
            ctx.violation(key + ":" + type(e).__name__, f"unexpected exception {e!r}", ev)
            return
        ctx.case((key, raised), {"op": op, "args": args, "self": A, "raised": raised}, nontrivial=not raised)
        if raised != (got is not None):
            ctx.violation(key + (":should-raise" if raised else ":raised-ValueError"),
                          f"spec raised={raised}, implementation raised={got}", ev)
            return
        if [digest(o) for o in objs] != before:
            ctx.violation(key + ":operand-modified", "an operand changed", ev)
        if not raised:
            same_values(res, heap[-1], key, ev, total_only=op in ("add", "radd", "sub", "rsub"))
            if any(np.shares_memory(x, y) for x in arrays(res) for o in objs for y in arrays(o)):
                ctx.violation(key + ":aliasing", "result shares memory with an operand", ev)

    # ------------------------------------------------------------ 1. model checking + replay (R)
    r = ctx.tlc("MC_Signals", "SPECIFICATION Spec\n" + INVS + "INVARIANT Emit\nCONSTANTS MaxHeap = 3\n Pool <- PoolPairs\n",
                workers=1, note="every call on every ordered pair of pool objects", timeout=3000)
    evs = parse_ev(r.out)
    if len(evs) != r.distinct:
        raise MachineryError(f"parsed {len(evs)} of {r.distinct} states")
    for ev in evs:
        replay(ev)
    ctx.behaviours += len(evs)
    if T:
        r2 = ctx.tlc("MC_Signals", "SPECIFICATION Spec\n" + INVS + "INVARIANT Emit\nCONSTANTS MaxHeap = 3\n Pool <- PoolSingles\n",
                     workers=1, note="programs of depth 2 on single objects (replayed)", timeout=9000)
        evs2 = parse_ev(r2.out)
        if len(evs2) != r2.distinct:
            raise MachineryError(f"parsed {len(evs2)} of {r2.distinct} states")
        for ev in evs2:
            replay(ev)
        ctx.behaviours += len(evs2)
    # constructor table
    N = 3
    r = ctx.tlc("SignalsCtor", f"SPECIFICATION Spec\nINVARIANT Contract\nINVARIANT Emit\nCHECK_DEADLOCK FALSE\nCONSTANTS N = {N}\n",
                workers=1, note="constructor forms")
    base = np.array([[1 + 2j, -1, 3], [0.5, 2j, -4], [7, 8, 9]])
    nbase = base * 0.25 - 1
    for ev in parse_ev(r.out):
        c, want = ev["case"], ev["res"]
        f = c["sform"]

        def mkform(b):
            if f == "scalar":
                return complex(b[0, 0])
            if f == "str1d":
                return ", ".join(str(complex(v)).strip("()") for v in b[0])
            if f == "list1d":
                return [complex(v) for v in b[0]]
            if f == "tuple1d":
                return tuple(complex(v) for v in b[0])
            if f == "nd1d":
                return b[0].copy()
            if f == "nd1xN":
                return b[:1].copy()
            if f == "nd2xN":
                return b[:2].copy()
            if f == "list2xN":
                return [[complex(v) for v in row] for row in b[:2]]
            if f == "str2xN":
                return "; ".join(", ".join(str(complex(v)).strip("()") for v in row) for row in b[:2])
            if f == "nd3xN":
                return b.copy()
            if f == "empty":
                return np.array([])
            if f == "nd3d":
                return np.zeros((2, 2, 3))
        sig = mkform(base)
        noise = None if c["nform"] == "none" else (mkform(nbase) if c["nform"] == "same" else np.zeros(7))
        if c["nform"] == "same" and f in ("empty", "nd3d"):
            noise = mkform(base)
        key = f"ctor:{c['cls']}:{f}:npol={c['npol']}:noise={c['nform']}"
        try:
            with deadline(30):
                if c["cls"] == "E":
                    obj = electrical_signal(sig, noise)
                else:
                    obj = optical_signal(sig, noise, n_pol=(c["npol"] or None))
            got = None
        except (ValueError, TypeError) as e:
            got = type(e).__name__
        ctx.case(("ctor", c["cls"], f, c["npol"], c["nform"], want["raised"]), {"ctor": c, "expect": want}, nontrivial=not want["raised"])
        if want["raised"] != (got is not None):
            ctx.violation(key + (":should-raise" if want["raised"] else f":raised-{got}"),
                          f"constructor form {c}: spec raised={want['raised']}, implementation raised {got}", {"case": c})
            continue
        if want["raised"]:
            continue
        d = describe(obj) if False else None
        s = np.asarray(obj.signal)
        npol = getattr(obj, "n_pol", 1) if c["cls"] == "O" else 1
        ok = (s.ndim == 1 and npol == 1) or (s.ndim == 2 and s.shape[0] == 2 and npol == 2)
        ok = ok and s.shape[-1] == want["len"] and len(obj) == want["len"] and (obj.noise is not None) == want["hasnoise"] \
            and (obj.noise is None or np.asarray(obj.noise).shape == s.shape) and (want["npol"] == 0 or npol == want["npol"])
        if ok and want["npol"] > 0:
            src = np.atleast_2d(np.array(base if f != "scalar" else base[:1, :1]))
            nsrc = np.atleast_2d(np.array(nbase if f != "scalar" else nbase[:1, :1]))
            for r_i, srow in enumerate(want["rows"]):
                row = np.atleast_2d(s)[r_i]
                ok = ok and np.array_equal(row, src[srow - 1][:want["len"]])
                if want["hasnoise"]:
                    ok = ok and np.array_equal(np.atleast_2d(obj.noise)[r_i], nsrc[srow - 1][:want["len"]])
        if not ok:
            ctx.violation(key + ":layout", f"constructed object violates the contract/expected layout {want}", {"case": c})
    ctx.exhaustive = True
    # ------------------------------------------------------------ 2. random programs, validated by TLC (T)
    events, meta = [], []
    lengths = [1, 2, 3, 5, 7, 31, 97] + ([1024, 4099] if T else [257])

    def rand_obj(cls, npol, n, noisy, k):
        def rows():
            if k % 3 == 2:
                return (np.array([[rnd.randrange(-8, 9) for _ in range(n)] for _ in range(npol)]) +
                        1j * np.array([[rnd.randrange(-8, 9) for _ in range(n)] for _ in range(npol)]))
            return np.array([[rnd.randrange(-8, 9) for _ in range(n)] for _ in range(npol)]).astype([np.int64, np.float64][k % 2])
        s = rows()
        nz = rows() if noisy else None
        if npol == 1:
            s, nz = s[0], (None if nz is None else nz[0])
        o = CLS[cls](s, nz)
        for a in arrays(o):
            a.flags.writeable = False
        return o

    # fractional scalars and arrays on records stored with an integer (or real) dtype: the spec's integers stand for half-units here
    # (every value doubled); also the same transform requested twice (a fresh object each time), and after an in-place edit
    def half(res):
        d = describe(res)
        d.pop("layout_ok")
        dbl = lambda a_: [[[int(round(2 * v.real)), int(round(2 * v.imag))] for v in row] for row in np.atleast_2d(np.asarray(a_))]
        d["sig"] = dbl(res.signal)
        d["noise"] = dbl(res.noise) if res.noise is not None else []
        return d
    for it in range(240 if T else 60):
        cls = [electrical_signal, optical_signal][it % 2]
        n = [1, 2, 5, 6][it % 4]
        npol = 2 if (cls is optical_signal and it % 4 >= 2) else 1
        dt = [np.int64, np.float64, np.int32, np.complex128, np.uint8][it % 5]
        base = np.array([[rnd.randrange(0, 9) for _ in range(n)] for _ in range(npol)]).astype(dt)
        nz = None if it % 3 else np.array([[rnd.randrange(-3, 4) for _ in range(n)] for _ in range(npol)]).astype([np.int64, np.float64][it % 2])
        x = cls(base if npol == 2 else base[0], None if nz is None else (nz if npol == 2 else nz[0]))
        for arr in arrays(x):
            arr.flags.writeable = False
        kind = ["float", "npscalar", "ndarray", "list", "np.float32", "np.int64", "np.int16", "np.uint8", "ndarray-float32", "tuple"][(it // 5 + it) % 10]
        L = 1 if kind in ("float", "npscalar", "np.float32", "np.int64", "np.int16", "np.uint8") or it % 2 else n
        lit_vals = [rnd.randrange(-9, 10) / 2 for _ in range(L)]
        if kind in ("np.int64", "np.int16"):
            lit_vals = [float(rnd.randrange(-9, 10))]
        if kind == "np.uint8":
            lit_vals = [float(rnd.randrange(0, 10))]
        lit = {"float": lambda: float(lit_vals[0]), "npscalar": lambda: np.float64(lit_vals[0]), "ndarray": lambda: np.array(lit_vals), "list": lambda: list(lit_vals),
               "np.float32": lambda: np.float32(lit_vals[0]), "np.int64": lambda: np.array([int(lit_vals[0])])[0], "np.int16": lambda: np.int16(lit_vals[0]),
               "np.uint8": lambda: np.uint8(lit_vals[0]), "ndarray-float32": lambda: np.array(lit_vals, dtype=np.float32), "tuple": lambda: tuple(lit_vals)}[kind]()
        op = ["add", "radd", "sub", "rsub"][it % 4]
        ev = {"kind": "op", "op": op, "a": half(x), "b": half(x), "blit": True, "lit": [[[int(round(2 * v)), 0] for v in lit_vals]], "sl": [[], [], []], "k": 0}
        try:
            with deadline(30):
                res = apply_bin(op, x, lit)
            ev["raised"], ev["out"] = False, half(res)
        except ValueError:
            ev["raised"], ev["out"] = True, ev["a"]
        except Exception as e:
            ctx.violation(f"program:{op}:{type(e).__name__}", f"unexpected exception {e!r} for a fractional {kind} operand on a {np.dtype(dt).name} record", {"event": ev})
            continue
        events.append(ev)
        meta.append((op + "-fractional-" + kind, "E" if cls is electrical_signal else "O", npol, ev["raised"]))
        ctx.case(("fractional-operand", op, kind, np.dtype(dt).name, npol, nz is not None))
        # the same transform twice, then after an in-place edit of the samples
        y = cls(base.astype(complex) if npol == 2 else base[0].astype(complex), None if nz is None else (nz if npol == 2 else nz[0]))
        dom, sh = ["w", "t", "f"][it % 3], bool(it % 2)
        with deadline(30):
            r1, r2 = y(dom, sh), y(dom, sh)
            if r1 is r2 or any(np.shares_memory(p_, q_) for p_ in arrays(r1) for q_ in arrays(r2)) or any(np.shares_memory(p_, q_) for p_ in arrays(r1) for q_ in arrays(y)):
                ctx.violation("transform:not-a-new-object", "the same transform requested twice returned the same object or shared buffers", {"domain": dom, "shift": sh})
            r1.signal[..., 0] = 123.0
            y.signal[..., -1] = 7.0 - 2.0j
            if y.noise is not None:
                y.noise[..., 0] = y.noise[..., 0] + 1
            r3 = y(dom, sh)
            fresh = cls(np.array(y.signal), None if y.noise is None else np.array(y.noise))(dom, sh)
            same = np.array_equal(np.asarray(r3.signal), np.asarray(fresh.signal)) and ((r3.noise is None) == (fresh.noise is None)) and \
                (r3.noise is None or np.array_equal(np.asarray(r3.noise), np.asarray(fresh.noise)))
            if not same:
                ctx.violation("transform:depends-on-earlier-calls", "a transform after an in-place edit of the samples differs from the transform of a fresh object with the same samples",
                              {"domain": dom, "shift": sh})
        ctx.case(("transform-twice", dom, sh, npol))
    nprog = 5000 if T else 250
    for p in range(nprog):
        cls = rnd.choice(["E", "O"])
        npol = 1 if cls == "E" else rnd.choice([1, 2])
        n = rnd.choice(lengths)
        objs = [rand_obj(cls, npol, n, rnd.random() < 0.5, p + i) for i in range(2)] + [rand_obj(cls, npol, 1, rnd.random() < 0.5, p)]
        for step in range(6):
            a = rnd.choice(objs)
            if len(a) < 1:
                ctx.violation("program:empty-container", "an operation returned an empty container", {"object": describe(a)})
                break
            before = [digest(o) for o in objs]
            k = rnd.randrange(10)
            ev = {"a": describe(a), "b": describe(a), "blit": False, "lit": [[[0, 0]]], "sl": [[], [], []], "k": 0}
            try:
                with deadline(60):
                    if k < 6:
                        op = rnd.choice(["add", "radd", "sub", "rsub", "mul", "rmul"])
                        ev["op"] = op
                        if rnd.random() < 0.6:
                            b = rnd.choice(objs)
                            if getattr(b, "n_pol", 1) != getattr(a, "n_pol", 1):
                                continue
                            ev["b"] = describe(b)
                            res = apply_bin(op, a, b)
                        else:
                            kind = rnd.choice(["int", "float", "complex", "list", "tuple", "str", "npscalar", "ndarray"])
                            L = 1 if kind in ("int", "float", "complex", "npscalar") else rnd.choice([len(a), len(a), 1, len(a) + 1])
                            L = min(L, 40) if kind == "str" and L != len(a) else L
                            rows = [[[rnd.randrange(-5, 6) or 2, 0 if kind in ("int", "float") or rnd.random() < 0.5 else rnd.randrange(-3, 4)] for _ in range(L)]]
                            if kind in ("list", "tuple", "str", "ndarray") and any(v[1] for v in rows[0]) is False and all(v[0] in (0, 1) for v in rows[0]):
                                rows[0][0][0] = 3      # avoid the "bit pattern" reading of a 0/1-only string
                            ev["blit"], ev["lit"] = True, rows
                            res = apply_bin(op, a, literal(kind, rows))
                    elif k < 8:
                        s3 = [rnd.choice([None, 0, 1, -1, len(a) // 2, len(a), -len(a)]) for _ in range(2)] + [rnd.choice([None, 1, 2, 3, -1, -2])]
                        ev["op"], ev["sl"] = "slice", [[] if v is None else [v] for v in s3]
                        res = a[slice(*s3)] if rnd.random() < 0.7 or s3[0] is not None or s3[2] is not None else a.copy(s3[1])
                    elif k < 9:
                        kk = rnd.randrange(-len(a), len(a))
                        ev["op"], ev["k"] = "index", kk
                        res = a[kk]
                    else:
                        ev["op"] = "transform"
                        res = a(rnd.choice(["t", "w", "f"]), rnd.random() < 0.5)
                ev["raised"] = False
            except ValueError:
                ev["raised"], res = True, None
            except Exception as e:
                ctx.violation(f"program:{ev.get('op')}:{type(e).__name__}", f"unexpected exception {e!r}", {"event": ev})
                continue
            if [digest(o) for o in objs] != before:
                ctx.violation(f"program:{ev['op']}:operand-modified", "an operand changed", {"event": ev})
            if res is not None:
                d = describe(res)
                if ev["op"] in ("mul", "rmul", "transform"):
                    d["sig"] = [[[0, 0]] * len(r) for r in d["sig"]] if d["sig"] != [[]] else d["sig"]
                    d["noise"] = [[[0, 0]] * len(r) for r in d["noise"]]
                if not d.pop("layout_ok"):
                    ctx.violation(f"program:{ev['op']}:contract", "result violates the container contract", {"event": ev})
                    continue
                ev["out"] = d
                if any(np.shares_memory(x, y) for x in arrays(res) for o in objs for y in arrays(o)):
                    ctx.violation(f"program:{ev['op']}:aliasing", "result shares memory with an operand", {"event": ev})
                if ev["op"] not in ("mul", "rmul", "transform") and 1 <= len(res) <= 128 and rnd.random() < 0.7:
                    for x in arrays(res):
                        x.flags.writeable = False
                    objs.append(res)
            else:
                ev["out"] = ev["a"]
            for fld in ("a", "b"):
                ev[fld] = {k2: v for k2, v in ev[fld].items() if k2 != "layout_ok"}
            events.append({"kind": "op", **ev})
            meta.append((ev["op"], cls, npol, ev["raised"]))
            ctx.case(("program", ev["op"], cls, npol, ev["blit"], ev["raised"], ev["a"]["hasnoise"], min(len(a), 3)),
                     nontrivial=not ev["raised"])
    B = 1500
    for i in range(0, len(events), B):
        for idx, clause in ctx.validate("SignalsTrace", events[i:i + B], note="random operator programs"):
            m = meta[i + idx - 1]
            ctx.violation(f"program:{m[0]}:{m[1]}{m[2]}:{clause}", f"event {m} rejected: {clause}", {"event": events[i + idx - 1]})
