"""C06 - MZM obeys its passive transfer function; PM / laser phase terms are pure rotations.
Spec: Modulators.tla, ModulatorsModel.tla (quarter-turn lattice, replayed), ModulatorsTrace.tla (laws/bounds off-lattice)."""
import random, math, warnings
import numpy as np
from ..core import deadline, import_repo, pollute_gv, MachineryError
from ..behav import parse_ev

LEVEL = "model_checking"
INV = ("INVARIANT Passive\nINVARIANT OnOff\nINVARIANT Periodic\nINVARIANT NoiseLikeSignal\nINVARIANT PolBlanked\nINVARIANT PMPure\n"
       "INVARIANT PMAdditive\nCHECK_DEADLOCK FALSE\n")


def run(ctx):
    ctx.rule = ("case = one MZM/PM call replayed from a TLC lattice state (complete output compared) or one law/bound measurement judged by TLC; "
                "class = (device, layout, noise, drive kind, scalar drive, pol, loss/ER) resp. (law, layout, noise, drive kind)")
    T = ctx.thorough
    ctx.tlc("ModulatorsModel", "SPECIFICATION Spec\n" + INV + "CONSTANTS Qs <- QSet\n MaxLen = 2\n", note="lattice: all fields, drives, both pol; PM twice", timeout=3000, actions=["Modulate", "Again"])
    r = ctx.tlc("ModulatorsModel", "SPECIFICATION Spec\n" + INV + "INVARIANT Emit\nCONSTANTS Qs <- QSmall\n MaxLen = 2\n", workers=1,
                note="replayed lattice states", timeout=3000, count=False)
    ctx.exhaustive = True
    import_repo()
    from opticomlib.devices import MZM, PM, LASER
    from opticomlib.typing import gv, optical_signal, electrical_signal
    rnd = random.Random(ctx.seed)

    def mk(rows, noise):
        a = np.array([[complex(*v) for v in r] for r in rows])
        n = None if noise is None else np.array([[complex(*v) for v in r] for r in noise])
        o = optical_signal(a if len(rows) == 2 else a[0], None if n is None else (n if len(rows) == 2 else n[0]))
        for x in (o.signal, o.noise):
            if x is not None:
                x.flags.writeable = False
        return o

    def drive(vals, kind):
        vals = np.array(vals, dtype=float)
        if len(vals) == 1 and kind == "scalar":
            return float(vals[0])
        if kind == "electrical_signal":
            return electrical_signal(vals)
        return vals

    evs = parse_ev(r.out)
    for k, ev in enumerate(evs):
        dev, q, pol = ev["dev"], ev["q"], ev["pol"]
        n = len(ev["sig"][0])
        Vpi = [5.0, 3.3, 1.0][k % 3]
        loss, ER = [(0.0, 26.0), (3.0, 10.0), (6.0, 40.0), (1.5, 0.0), (0.0, 60.0)][k % 5]
        kind = ["scalar", "ndarray", "electrical_signal"][k % 3] if len(q) == 1 else ["ndarray", "electrical_signal"][k % 2]
        if len(q) == 1 and kind != "scalar" and n > 1:
            qv = [q[0]] * n
        else:
            qv = q
        x = mk(ev["sig"], ev["noise"] if ev["hasnoise"] else None)
        key = f"lattice:{dev}:{kind}"
        pollute_gv(gv, k % 2 == 1)                     # user-defined globals (gv.Vpi, gv.BW, ...) present on every other call
        with deadline(60):
            if dev == "MZM":
                bias = [0.0, Vpi, -2 * Vpi][k % 3]
                u = [qq * Vpi - bias for qq in qv]
                out = MZM(x, drive(u, kind), bias=bias, Vpi=Vpi, loss_dB=loss, ER_dB=ER, pol=pol)
                amp = lambda c: 10 ** (-loss / 20) * (10 ** (-ER / 20) if c["attn"] else 1.0)
                wantS = np.array([[complex(*c["v"]) * amp(c) for c in row] for row in ev["outS"]])
                wantN = None if not ev["hasnoise"] else np.array([[complex(*c["v"]) * amp(c) for c in row] for row in ev["outN"]])
            else:
                u = [qq * Vpi / 2 for qq in qv]
                out = PM(x, drive(u, kind), Vpi)
                wantS = np.array([[complex(*c) for c in row] for row in ev["outS"]])
                wantN = None if not ev["hasnoise"] else np.array([[complex(*c) for c in row] for row in ev["outN"]])
        ctx.case((key, len(ev["sig"]), ev["hasnoise"], len(q) == 1, pol, k % 5), {"dev": dev, "q": q, "pol": pol, "sig": ev["sig"], "Vpi": Vpi, "loss": loss, "ER": ER})
        gotS = np.atleast_2d(out.signal)
        gotN = None if out.noise is None else np.atleast_2d(out.noise)
        ok = type(out) is optical_signal and out.n_pol == len(ev["sig"]) and gotS.shape == wantS.shape and np.allclose(gotS, wantS, rtol=0, atol=1e-12 * 10)
        if wantN is None:
            okn = gotN is None
        else:
            okn = gotN is not None and gotN.shape == wantN.shape and np.allclose(gotN, wantN, rtol=0, atol=1e-11)
        if not ok:
            ctx.violation(key + ":signal", f"{dev} output signal differs from the lattice model: q={q} pol={pol} loss={loss} ER={ER}", {"event": ev})
        if not okn:
            ctx.violation(key + ":noise", f"{dev} output noise differs from the lattice model (noise must be modulated like the signal)", {"event": ev})
    ctx.behaviours += len(evs)
    pollute_gv(gv, False)
    # ------------------------------------------------------------------ off-lattice laws / bounds
    events, meta = [], []

    def rel(a, b):
        a, b = np.asarray(a), np.asarray(b)
        if a.shape != b.shape or not np.all(np.isfinite(a)) or not np.all(np.isfinite(b)):
            return 10 ** 9
        return int(min(10 ** 9, float(np.max(np.abs(a - b)) / max(np.max(np.abs(b)), 1e-300)) * 1e12))

    def law(name, a, b):
        events.append({"kind": "law", "name": name, "ppt": rel(a, b)})
        meta.append(("law", name))

    def bound(name, excess):
        events.append({"kind": "bound", "name": name, "ppb": int(min(10 ** 9, max(0.0, excess) * 1e9))})
        meta.append(("bound", name))

    for it in range(800 if T else 50):
        n = rnd.choice([1, 2, 7, 64, 257])
        npol = rnd.choice([1, 2])
        noisy = rnd.random() < 0.5
        rs = np.random.RandomState(it)
        s = (rs.randn(npol, n) + 1j * rs.randn(npol, n))
        nz = 0.1 * (rs.randn(npol, n) + 1j * rs.randn(npol, n)) if noisy else None
        if noisy and it % 3 == 0:
            nz = np.round(nz * 64) / 64
            nz = nz - nz.sum() / nz.size            # a noise component whose samples sum to (almost exactly) zero
            if n == 2 and npol == 1:
                nz = np.array([[0.25 - 0.5j, -0.25 + 0.5j]])
        x = optical_signal(s if npol == 2 else s[0], None if nz is None else (nz if npol == 2 else nz[0]))
        u = rs.uniform(-10, 10, n)
        Vpi, bias = rnd.uniform(0.5, 8), rnd.uniform(-5, 5)
        if it % 5 == 0:
            Vpi = 5.0                                  # the documented default, passed explicitly
        pollute_gv(gv, it % 2 == 0)
        loss, ER = rnd.choice([0, 0.5, 3, 10]), rnd.choice([0, 3, 10, 26, 60])
        pol = rnd.choice(["x", "y"])
        with deadline(120):
            o = MZM(x, u, bias, Vpi, loss, ER, pol)
            tot_in = np.atleast_2d(x.signal + (x.noise if noisy else 0))
            tot_out = np.atleast_2d(o.signal + (o.noise if o.noise is not None else 0))
            L = 10 ** (-loss / 10)
            bound("MZM-passive-per-sample", float(np.max(np.abs(np.atleast_2d(o.signal)) ** 2 - L * np.abs(np.atleast_2d(x.signal)) ** 2)) / (L * np.max(np.abs(s)) ** 2))
            if npol == 2:
                dead = 1 if pol == "x" else 0
                bound("MZM-unselected-polarisation-extinguished", float(np.max(np.abs(tot_out[dead]))))
            law("MZM-power-2Vpi-periodic", np.abs(MZM(x, u + 2 * Vpi, bias, Vpi, loss, ER, pol).signal) ** 2 + 1, np.abs(o.signal) ** 2 + 1)
            if noisy:
                xn = optical_signal(x.noise)
                law("MZM-noise-modulated-like-signal", o.noise, MZM(xn, u, bias, Vpi, loss, ER, pol).signal)
            law("drive-kinds-agree-MZM", MZM(x, electrical_signal(u), bias, Vpi, loss, ER, pol).signal, o.signal)
            if n >= 64:
                from opticomlib.devices import BPF
                bw = rnd.uniform(0.05, 0.9) * gv.fs
                law("MZM(BW)=BPF(MZM)", np.atleast_2d(MZM(x, u, bias, Vpi, loss, ER, pol, BW=bw).signal) + 10, np.atleast_2d(BPF(o, bw).signal) + 10)
            law("drive-kinds-agree-MZM", MZM(x, 1.25, bias, Vpi, loss, ER, pol).signal, MZM(x, np.full(n, 1.25), bias, Vpi, loss, ER, pol).signal)
            # another spelling of the selected polarisation: rejected (ValueError), or accepted with the same meaning
            try:
                oU = MZM(x, u, bias, Vpi, loss, ER, pol.upper())
            except ValueError:
                oU = None
            if oU is not None:
                law("MZM-pol-spelling", np.atleast_2d(oU.signal) + 1, np.atleast_2d(o.signal) + 1)
                if npol == 2:
                    totU = np.atleast_2d(oU.signal + (oU.noise if oU.noise is not None else 0))
                    bound("MZM-unselected-polarisation-extinguished", float(np.max(np.abs(totU[1 if pol == "x" else 0]))))
            # on/off ratio = ER
            cw = optical_signal(np.ones(4) * 0.3)
            p_on = MZM(cw, -bias, bias, Vpi, loss, ER).power()
            p_off = MZM(cw, Vpi - bias, bias, Vpi, loss, ER).power()
            events.append({"kind": "ratio", "erdB": int(round(ER * 1000)), "measured": int(round(10 * math.log10(float(np.sum(p_on)) / float(np.sum(p_off))) * 1000))})
            meta.append(("ratio", ER))
            law("MZM-transfer-at-lattice-power", np.sum(p_on) + 0.0, 0.09 * L)
            # PM
            a, b = rs.uniform(-6, 6, n), rs.uniform(-6, 6, n)
            p1 = PM(x, a, Vpi)
            law("PM(PM(x,a),b)=PM(x,a+b)", np.atleast_2d(PM(p1, b, Vpi).signal), np.atleast_2d(PM(x, a + b, Vpi).signal))
            law("PM-phase-is-pi*u/Vpi", np.atleast_2d(p1.signal), np.atleast_2d(x.signal) * np.exp(1j * math.pi * a / Vpi))
            tp = np.abs(np.atleast_2d(p1.signal + (p1.noise if p1.noise is not None else 0))) ** 2
            law("PM-total-power-unchanged", tp + 1, np.abs(tot_in) ** 2 + 1)
            if noisy:
                law("PM-noise-rotated-like-signal", p1.noise, PM(optical_signal(x.noise), a, Vpi).signal)
            # a field stored with a real or an integer dtype (an ideal CW laser, a DAC waveform used as a field): the modulator output is complex all the same
            xr = np.round(x.signal.real * 8)
            for xr_ in (xr / 8.0, xr.astype(np.int64)):
                law("PM-phase-is-pi*u/Vpi", np.atleast_2d(PM(optical_signal(xr_), a, Vpi).signal) + 1, np.atleast_2d(xr_) * np.exp(1j * math.pi * a / Vpi) + 1)
                law("MZM-real-stored-field=complex-stored-field", np.atleast_2d(MZM(optical_signal(xr_), u, bias, Vpi, loss, ER, pol).signal) + 1,
                    np.atleast_2d(MZM(optical_signal(np.asarray(xr_, dtype=complex)), u, bias, Vpi, loss, ER, pol).signal) + 1)
            law("drive-kinds-agree-PM", PM(x, electrical_signal(a), Vpi).signal, p1.signal)
            law("drive-kinds-agree-PM", PM(x, 0.75, Vpi).signal, PM(x, np.full(n, 0.75), Vpi).signal)
            # the same voltages stored with a complex dtype (e.g. after an FFT-based filter): same modulation
            law("drive-kinds-agree-PM", PM(x, a.astype(complex), Vpi).signal, p1.signal)
            law("drive-kinds-agree-PM", PM(x, electrical_signal(a, dtype=complex), Vpi).signal, p1.signal)
            law("drive-kinds-agree-MZM", MZM(x, u.astype(complex), bias, Vpi, loss, ER, pol).signal, o.signal)
            # (a drive stored in single precision is processed in single precision: agreement to about 1e-7 x the phase excursion - own tolerance class)
            law("MZM-single-precision-drive", MZM(x, u.astype(np.float32).astype(float), bias, Vpi, loss, ER, pol).signal, MZM(x, u.astype(np.float32), bias, Vpi, loss, ER, pol).signal)
            # nearly constant and very small drives: the phase follows the drive sample by sample
            for dname, dv in (("dither", 4.0 + 2e-5 * rs.randn(n)), ("tiny", 3e-9 * np.where(np.arange(n) % 2 == 0, 1.0, -1.0) + 1e-10 * rs.randn(n)), ("step", np.where(np.arange(n) % 2 == 0, 1.0, 1.0 + 1e-7))):
                if n < 2:
                    continue
                pd_ = PM(x, dv if it % 2 else electrical_signal(dv), Vpi)
                ph = np.angle(np.atleast_2d(pd_.signal) * np.conj(np.atleast_2d(x.signal)) * np.exp(-1j * math.pi * dv.mean() / Vpi))
                law("PM-small-drive-phase", ph, np.broadcast_to(math.pi * (dv - dv.mean()) / Vpi, ph.shape))
        # drive length verdicts
        for dev in ("MZM", "PM"):
            for kind in ("ndarray", "electrical_signal"):
                for badlen in sorted({n + 1, n - 1, 2 * n, n // 2, n // 3, 2, 5} - {n, 0, 1}):
                    bad = np.zeros(badlen) if kind == "ndarray" else electrical_signal(np.zeros(badlen))
                    try:
                        (MZM if dev == "MZM" else PM)(x, bad)
                        raised = "ok"
                    except ValueError:
                        raised = "ValueError"
                    except Exception as e:
                        raised = type(e).__name__
                    events.append({"kind": "verdict", "what": f"{dev}-{kind}-len{badlen}/{n}", "raised": raised, "expected": "ValueError"})
                    meta.append(("verdict", dev + kind))
                bad = np.zeros(n + 1) if kind == "ndarray" else electrical_signal(np.zeros(n + 1))
                try:
                    (MZM if dev == "MZM" else PM)(x, bad)
                    raised = "ok"
                except ValueError:
                    raised = "ValueError"
                except Exception as e:
                    raised = type(e).__name__
                events.append({"kind": "verdict", "what": f"{dev}-{kind}", "raised": raised, "expected": "ValueError"})
                meta.append(("verdict", dev + kind))
        ctx.case(("laws", n > 2, npol, noisy, pol, loss > 0, ER))
    # LASER
    pollute_gv(gv, False)
    for it in range(200 if T else 16):
        unit = it % 4 == 3                       # normalised units: fs = 1 and an integer-typed time vector t = 0, 1, 2, ...
        with warnings.catch_warnings():
            warnings.simplefilter("ignore")
            gv(sps=8, R=0.125) if unit else gv(sps=rnd.choice([8, 16]), R=rnd.choice([1e9, 10e9]))
        N = rnd.choice([256, 1000, 4096])
        t = np.arange(N) if unit else np.arange(N) * gv.dt
        p = rnd.uniform(-20, 10)
        kb = rnd.randrange(-N // 2 + 1, N // 2)
        df = kb * gv.fs / N
        lw = rnd.choice([None, 1e5, 1e6])
        lw = None if lw is None else (lw * 1e-9 if unit else lw)
        np.random.seed(it)
        with deadline(60):
            o = LASER(t, p, lw=lw, df=df)
        P = 10 ** (p / 10 - 3)
        law("LASER-|E|^2=P", np.abs(o.signal) ** 2, np.full(N, P))
        if lw is None:
            # the offset term is exp(j 2 pi df t) on the caller's own time vector, whatever its step or origin
            law("LASER-field=sqrt(P)*exp(j*2pi*df*t)", o.signal + 1, math.sqrt(P) * np.exp(2j * math.pi * df * t) + 1)
            for t2 in (np.arange(N) * (2 * gv.dt), np.arange(N) * (gv.dt / 4) + 3 * gv.dt, np.linspace(0, (N - 1) * gv.dt * 0.9, N)):
                with deadline(60):
                    o2 = LASER(t2, p, df=df)
                law("LASER-field=sqrt(P)*exp(j*2pi*df*t)", o2.signal + 1, math.sqrt(P) * np.exp(2j * math.pi * df * t2) + 1)
        if lw is None:
            sp = np.abs(np.fft.fft(o.signal))
            idx = int(np.argmax(sp))
            events.append({"kind": "peak", "idx": idx if idx < (N + 1) // 2 else idx - N, "expected": kb})
            meta.append(("peak", kb))
        ctx.case(("laser", lw is None, kb > 0, N))
    # the same offset and record length under two sampling rates, one after the other (the carrier must follow the current time axis)
    for it, (cfgA, cfgB) in enumerate([(dict(sps=16, R=1e9), dict(sps=8, R=1e9)), (dict(sps=8, R=10e9), dict(sps=16, R=10e9))]):
        N, dfv = 1024, None
        for cfgx in (cfgA, cfgB, cfgA):
            with warnings.catch_warnings():
                warnings.simplefilter("ignore")
                gv(**cfgx)
            if dfv is None:
                dfv = 64 * gv.fs / N
            t = np.arange(N) * gv.dt
            with deadline(60):
                o = LASER(t, 0.0, df=dfv)
            sp = np.abs(np.fft.fft(o.signal))
            idx = int(np.argmax(sp))
            events.append({"kind": "peak", "idx": idx if idx < (N + 1) // 2 else idx - N, "expected": int(round(dfv * N / gv.fs))})
            meta.append(("peak", "history"))
        ctx.case(("laser-history", it))
    gv.clean()
    for idx, clause in ctx.validate("ModulatorsTrace", events, note="laws/bounds"):
        m = meta[idx - 1]
        ctx.violation(f"{m[0]}:{clause}", f"{m} rejected: {events[idx - 1]}", {"event": events[idx - 1]})
