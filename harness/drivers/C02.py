"""C02 - time/frequency transforms are exact inverses on the sampling-rate grid.
Spec: Spectral.tla, SpectralModel.tla (exact DFT layer + index maps, replayed), SpectralTrace.tla (laws for arbitrary N)."""
import random, math, warnings
import numpy as np
from ..core import deadline, import_repo
from ..behav import parse_ev

LEVEL = "model_checking"


def run(ctx):
    ctx.rule = ("case = one transform/axis/power call replayed from a TLC state (exact DFT values, permutation and axis tables) or one law "
                "residual judged by TLC; class = (layer, N, class E/O, layout, noise, shift, domain, gv configuration)")
    T = ctx.thorough
    r = ctx.tlc("SpectralModel", "SPECIFICATION Spec\nINVARIANT RoundTrip\nINVARIANT Parseval\nINVARIANT ShiftOnlyReorders\nINVARIANT OddDiffers\n"
                "INVARIANT EvenSame\nINVARIANT AxisGrid\nINVARIANT Emit\nCHECK_DEADLOCK FALSE\nCONSTANTS MaxN = %d\n" % (33 if T else 17), workers=1,
                note="exact DFT layer (N=1,2,4) and shift/axis index maps")
    ctx.exhaustive = True
    import_repo()
    from opticomlib.typing import gv, electrical_signal, optical_signal
    rnd = random.Random(ctx.seed)
    events, meta = [], []

    def rel(a, b):
        a, b = np.asarray(a), np.asarray(b)
        if a.shape != b.shape or not np.all(np.isfinite(a)) or not np.all(np.isfinite(b)):
            return 10 ** 9
        return int(min(10 ** 9, float(np.max(np.abs(a - b)) / max(np.max(np.abs(b)), 1e-300)) * 1e12))

    def law(name, a, b):
        events.append({"kind": "law", "name": name, "ppt": rel(a, b)})
        meta.append(name)

    def c(v):
        return np.array([complex(*z) for z in v])

    gvs = [dict(sps=16, R=1e9), dict(sps=8, R=2.5e9), dict(fs=40e9, R=10e9), dict(sps=4, fs=10e9), dict(R=10e9, fs=25e9), dict(fs=23e9),   # incl. fs/R not an integer
           dict(sps=5, R=1e9), dict(sps=7, R=2e9), dict(sps=3, R=10e9)]                                                                       # odd numbers of samples per slot

    def setgv(i):
        with warnings.catch_warnings():
            warnings.simplefilter("ignore")
            gv.clean() if i % 11 == 10 else gv(**gvs[i % 9])
        return gv.fs

    evs = parse_ev(r.out)
    for k, ev in enumerate(evs):
        n = ev["n"]
        fs = setgv(k)
        if ev["mode"] == "exact":
            x, nz = c(ev["x"]), (c(ev["nz"]) if ev["nz"] else None)
            for cls, npol in ((electrical_signal, 1), (optical_signal, 1), (optical_signal, 2)):
                if npol == 2:
                    obj = optical_signal(np.array([x, x[::-1]]), None if nz is None else np.array([nz, nz]))
                else:
                    obj = cls(x, nz)
                with deadline(30):
                    W, Tm = obj("w"), obj("t")
                law("exact-layer", np.atleast_2d(W.signal)[0] + 10, c(ev["fwd"]) + 10)
                law("exact-layer", np.atleast_2d(Tm.signal)[0] * n + 10, c(ev["invN"]) + 10)
                if nz is not None:
                    law("exact-layer", np.atleast_2d(W.noise)[0] + 10, c(ev["fwdnz"]) + 10)
                ok = type(W) is cls and (W.noise is None) == (nz is None) and getattr(W, "n_pol", 1) == npol
                if not ok:
                    ctx.violation("exact:class-layout-noise", "transform changed class / layout / noise presence", {"event": ev})
                ctx.case(("exact", n, cls.__name__, npol, nz is not None), {"x": ev["x"], "fwd": ev["fwd"]})
        else:
            rs = np.random.RandomState(n)
            x = rs.randn(n) + 1j * rs.randn(n)
            nzv = rs.randn(n)
            src, isrc = np.array(ev["shiftsrc"]) - 1, np.array(ev["ishiftsrc"]) - 1
            for obj in (electrical_signal(x, nzv), optical_signal(np.array([x, 2 * x.conj()]), np.array([nzv, -nzv]))):
                with deadline(30):
                    W, Ws, Tm, Ts = obj("w"), obj("w", True), obj("t"), obj("t", True)
                    ax, axs = obj.w(), obj.w(True)
                law("x('w',shift)=x('w')[spec-permutation]", Ws.signal + 100, W.signal[..., src] + 100)
                law("x('w',shift)=x('w')[spec-permutation]", Ws.noise + 100, W.noise[..., src] + 100)
                law("x('t',shift)=x('t')[spec-permutation]", Ts.signal + 100, Tm.signal[..., isrc] + 100)
                law("x('t',shift)=x('t')[spec-permutation]", Ts.noise + 100, Tm.noise[..., isrc] + 100)
                law("w()=2pi*k*fs/N", ax + fs * 10, 2 * math.pi * np.array(ev["axis"]) * fs / n + fs * 10)
                law("w(shift)=2pi*k*fs/N", axs + fs * 10, 2 * math.pi * np.array(ev["axisshift"]) * fs / n + fs * 10)
                ctx.case(("perm", n, type(obj).__name__, k % 5), {"N": n, "fftshift-src": ev["shiftsrc"], "axis": ev["axis"]})
    ctx.behaviours += len(evs)
    # ------------------------------------------------------------------ arbitrary lengths
    lengths = [1, 2, 3, 5, 6, 7, 16, 31, 64, 127, 1024, 35, 15, 21, 49, 105] + ([3001, 4099, 8192, 16384] if T else [])
    scales = [1.0, 1e-15, 1e-9, 1e6, 1e-20, 1.0, 1e-12]
    plan = [(lengths[it % len(lengths)], it % 3 == 0, 1 + (it % 2), it % 4 != 1, scales[it % 7], it % 6 == 3) for it in range(len(lengths) * (40 if T else 4))]
    # long records (library back ends may switch on size), both layouts, complex and real
    plan += [(65536, False, 1, True, 1.0, False), (32768, False, 2, True, 1.0, False), (70001, False, 1, True, 1.0, False), (40000, False, 2, True, 1e-9, True),
             (131072, True, 1, True, 1.0, False)] + ([(262144, False, 2, True, 1.0, False), (1 << 20, False, 1, False, 1.0, False)] if T else [])
    for it, (n, real, npol, noisy, scale, eqrows) in enumerate(plan):
        fs = setgv(it)
        rs = np.random.RandomState(1000 + it)
        def fld():
            a = rs.randn(npol, n) if real else rs.randn(npol, n) + 1j * rs.randn(npol, n)
            return (a if npol == 2 else a[0]) * scale
        s, nz = fld(), (fld() if noisy else None)
        narrow = None
        if real and scale == 1.0 and it % 2 == 1:
            # records held in fewer than 64 bits (16-bit ADC samples, 8-bit codes, single precision): the transform is still the double-precision DFT
            narrow = [np.int16, np.uint8, np.float32, np.int8, bool, np.float16][(it // 2) % 6]
            s = (np.round(s * 40) % 120).astype(narrow) if narrow is not bool else (s > 0)
            nz = None if nz is None else np.round(nz * 40).astype(np.int16)
        if eqrows and npol == 2:
            s[1] = s[0]                                       # identical signal rows, different noise rows
        if n % gv.sps == 0 and (it % 2 == 0 or gv.sps % 2 == 1):
            with warnings.catch_warnings():
                warnings.simplefilter("ignore")
                gv(sps=gv.sps, R=gv.R, N=n // gv.sps)          # a slot count in force whose grid has exactly the record's length
            fs = gv.fs
        obj = optical_signal(s, nz) if (npol == 2 or it % 5 == 0) else electrical_signal(s, nz)
        keep = (obj.signal.copy(), None if obj.noise is None else obj.noise.copy())
        if it % 2 == 0:
            for a in (obj.signal, obj.noise):
                if a is not None:
                    a.flags.writeable = False
        o = 10 * scale                                        # offsets keep the comparison relative to the record's own scale
        with deadline(60):
            W, Ws, F = obj("w"), obj("w", True), obj("f")
            Tm, Ts = W("t"), obj("t", True)
            law("transform-leaves-x-unchanged", obj.signal + o, keep[0] + o)
            if noisy:
                law("transform-leaves-x-unchanged", obj.noise + o, keep[1] + o)
            law("x('w')('t')=x", Tm.signal + o, obj.signal + o)
            law("x('t')('w')=x", obj("t")("w").signal + o, obj.signal + o)
            if noisy:
                law("noise-round-trip", Tm.noise + o, obj.noise + o)
                law("noise-transformed-like-signal", W.noise + o * n, type(obj)(obj.noise)("w").signal + o * n)
            law("Parseval", np.sum(np.abs(np.atleast_2d(W.signal)) ** 2, axis=-1), n * np.sum(np.abs(np.atleast_2d(obj.signal)) ** 2, axis=-1))
            law("'f'='w'", F.signal + o * n, W.signal + o * n)
            Fs = obj("f", True)
            law("'f'='w'", Fs.signal + o * n, Ws.signal + o * n)
            if noisy:
                law("'f'='w'", Fs.noise + o * n, Ws.noise + o * n)
            law("ifftshift(x('w',shift))=x('w')", np.fft.ifftshift(Ws.signal, axes=-1) + o * n, W.signal + o * n)
            law("fftshift(x('t',shift))=x('t')", np.fft.fftshift(Ts.signal, axes=-1) + o, obj("t").signal + o)
            law("x('w')=numpy.fft.fft", W.signal + o * n, np.fft.fft(obj.signal, axis=-1) + o * n)
            law("x('t')=numpy.fft.ifft", obj("t").signal + o / n, np.fft.ifft(obj.signal, axis=-1) + o / n)
            # the results of transforms are signal objects like any other: transforming them again only depends on the samples they hold
            for Y in (Ws, W, Ts):
                law("x('t')=numpy.fft.ifft", Y("t").signal + o, np.fft.ifft(Y.signal, axis=-1) + o)
                law("x('w')=numpy.fft.fft", Y("w").signal + o * n * n, np.fft.fft(Y.signal, axis=-1) + o * n * n)
                if noisy:
                    law("noise-transformed-like-signal", Y("t").noise + o, np.fft.ifft(Y.noise, axis=-1) + o)
                    law("noise-transformed-like-signal", Y("t", True).noise + o, np.fft.ifftshift(np.fft.ifft(Y.noise, axis=-1), axes=-1) + o)
            tot = obj.signal + (obj.noise if noisy else 0)
            law("power=mean|s+n|^2", np.atleast_1d(obj.power()), np.atleast_1d(np.mean(np.abs(tot) ** 2, axis=-1)))
            k_axis = np.fft.fftfreq(n) * n
            law("w()=2pi*k*fs/N", obj.w() + fs * 10, 2 * math.pi * k_axis * fs / n + fs * 10)
            law("w(shift)=2pi*k*fs/N", obj.w(True) + fs * 10, np.fft.fftshift(2 * math.pi * k_axis * fs / n) + fs * 10)
            if it % 2 == 1 and n >= 2:
                # the samples edited in place (as the library's own devices do): every query answers for the samples now held
                obj.signal[..., 1] = 0
                if noisy:
                    obj.noise[..., ::2] = obj.noise[..., ::2] * 3
                law("x('w')=numpy.fft.fft", obj("w").signal + o * n, np.fft.fft(obj.signal, axis=-1) + o * n)
                law("x('t')=numpy.fft.ifft", obj("t", True).signal + o / n, np.fft.ifftshift(np.fft.ifft(obj.signal, axis=-1), axes=-1) + o / n)
                if noisy:
                    law("noise-transformed-like-signal", obj("w").noise + o * n, np.fft.fft(obj.noise, axis=-1) + o * n)
                tot = obj.signal + (obj.noise if noisy else 0)
                law("power=mean|s+n|^2", np.atleast_1d(obj.power()), np.atleast_1d(np.mean(np.abs(tot) ** 2, axis=-1)))
                law("power=mean|s+n|^2", np.atleast_1d(obj.power("signal")), np.atleast_1d(np.mean(np.abs(obj.signal) ** 2, axis=-1)))
        ctx.case(("laws", n, type(obj).__name__, npol, noisy, real, it % 5, scale, eqrows, str(narrow)))
    # objects whose array layout was changed through apply(): the transform follows the samples they hold now
    for n in (48, 7):
        rs = np.random.RandomState(n)
        dual = optical_signal(rs.randn(2, n) + 1j * rs.randn(2, n), rs.randn(2, n) * 0.1)
        xpol = dual.apply(lambda a: a[0])
        single = optical_signal(rs.randn(n) + 1j * rs.randn(n))
        both = single.apply(lambda a: np.array([a, 1j * a]))
        for o_ in (xpol, both):
            for dom_, sh_ in (("w", False), ("t", True), ("f", True)):
                with deadline(30):
                    r_ = o_(dom_, sh_)
                f_ = np.fft.fft if dom_ != "t" else np.fft.ifft
                g_ = (lambda v: v) if not sh_ else (np.fft.fftshift if dom_ != "t" else np.fft.ifftshift)
                law("x('w')=numpy.fft.fft", np.asarray(r_.signal) + 10 * n, g_(f_(np.asarray(o_.signal), axis=-1), axes=-1) + 10 * n if sh_ else f_(np.asarray(o_.signal), axis=-1) + 10 * n)
        ctx.case(("apply-layout", n))
    # the axis follows the sampling rate in force now: the same record length and the same samples per slot under another rate before
    for cfgs in ([dict(sps=16, R=1e9), dict(sps=16, R=2.5e9), dict(sps=16, R=1e9)], [dict(sps=8, R=10e9), dict(sps=8, fs=40e9), dict(sps=8, R=1.25e9)],
                 [dict(sps=5, R=1e9, N=7), dict(sps=5, R=3e9, N=7)]):
        for n in (64, 35):
            obj = electrical_signal(np.arange(n) + 0.5)
            obj2 = optical_signal(np.array([np.arange(n) + 0.5j, np.ones(n)]))
            for cfg_ in cfgs:
                with warnings.catch_warnings():
                    warnings.simplefilter("ignore")
                    gv(**cfg_)
                fs = gv.fs
                k_axis = np.fft.fftfreq(n) * n
                for o_ in (obj, obj2):
                    law("w()=2pi*k*fs/N", o_.w() + fs * 10, 2 * math.pi * k_axis * fs / n + fs * 10)
                    law("w(shift)=2pi*k*fs/N", o_.w(True) + fs * 10, np.fft.fftshift(2 * math.pi * k_axis * fs / n) + fs * 10)
        ctx.case(("axis-after-reconfiguration", cfgs[0].get("sps")))
    gv.clean()
    for idx, clause in ctx.validate("SpectralTrace", events, note="transform laws"):
        ctx.violation(f"law:{clause}", f"law {meta[idx - 1]} rejected: {events[idx - 1]}", {"event": events[idx - 1]})
