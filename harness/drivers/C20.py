"""C20 - PPG driver emits only in-range commands; memory round-trips; SYNC aligns.
Spec: PPG.tla, PPGModel.tla (bounded machine, replayed), PPGTrace.tla (stateful monitor), Sync.tla."""
import random, re, json, warnings, io, contextlib
import numpy as np
from ..core import deadline, import_repo, MachineryError
from ..behav import parse_ev

LEVEL = "model_checking"
UNIT = {"freq": 1e8, "amp": 0.1, "offs": 0.1, "skew": 1e-12, "plen": 1, "order": 1}


class FakeInst:
    """Simulated PPG3204: records every SCPI string, implements the pattern memory (IEEE-488.2 blocks)."""
    def __init__(self, maxmem):
        self.log = []
        self.settings = {}
        self.mem = {ch: np.zeros(maxmem + 2, dtype=np.uint8) for ch in range(1, 5)}

    def query(self, cmd):
        self.log.append(cmd)
        q = self.answer(cmd)
        if q is not None:
            return q
        m = re.fullmatch(r":DIG(\d+):PATT:DATA\? (\d+),(\d+)", cmd)
        if m:
            ch, addr, n = int(m.group(1)), int(m.group(2)), int(m.group(3))
            bits = "".join(str(b) for b in self.mem[ch][addr - 1:addr - 1 + n])
            return f"#{len(str(n))}{n}{bits}\n"
        m = re.fullmatch(r":DIG(\d+):PATT:DATA (\d+),(\d+),#(\d)(.*)", cmd)
        if m:
            ch, addr, n, k, rest = int(m.group(1)), int(m.group(2)), int(m.group(3)), int(m.group(4)), m.group(5)
            bits = rest[k:]
            if ch in self.mem and 1 <= addr and addr - 1 + len(bits) <= len(self.mem[ch]):
                self.mem[ch][addr - 1:addr - 1 + len(bits)] = [int(c) for c in bits]
        return "\n"

    DEFAULTS = {"FREQ": "1.00000e+10", "VOLT:POS": "1.0", "VOLT:OFFS": "0.0", "SKEW": "0.0", "PATT:LENG": "2", "PATT:PLEN": "7",
                "PATT:TYPE": "DATA", "PATT:BSH": "0", "OUTP": "OFF"}

    def answer(self, cmd):
        """settings are stored as the value text received; queries return it (power-on defaults otherwise)"""
        pats = [(r":FREQ (\S+)", "FREQ", None), (r":DIG(\d+):PATT:LENG (\S+)", "PATT:LENG", 1), (r":DIG(\d+):PATT:PLEN (\S+)", "PATT:PLEN", 1),
                (r":SKEW(\d+) (\S+)", "SKEW", 1), (r":VOLT(\d+):POS (\S+)v", "VOLT:POS", 1), (r":VOLT(\d+):(?:NEG|POS):OFFS (\S+)v", "VOLT:OFFS", 1),
                (r":DIG(\d+):PATT:TYPE (\S+)", "PATT:TYPE", 1), (r":DIG(\d+):PATT:BSH (\S+)", "PATT:BSH", 1), (r":OUTP(\d+) (\S+)", "OUTP", 1)]
        for pat, verb, chg in pats:
            m = re.fullmatch(pat, cmd)
            if m:
                ch = int(m.group(1)) if chg else 0
                self.settings[(verb, ch)] = m.group(2) if chg else m.group(1)
                return None
        qs = [(r":FREQ\?", "FREQ", None), (r":DIG(\d+):PATT:LENG\?", "PATT:LENG", 1), (r":DIG(\d+):PATT:PLEN\?", "PATT:PLEN", 1), (r":SKEW(\d+)\?", "SKEW", 1),
              (r":VOLT(\d+):POS\?", "VOLT:POS", 1), (r":VOLT(\d+):OFFS\?", "VOLT:OFFS", 1), (r":DIG(\d+):PATT:TYPE\?", "PATT:TYPE", 1),
              (r":DIG(\d+):PATT:BSH\?", "PATT:BSH", 1)]
        for pat, verb, chg in qs:
            m = re.fullmatch(pat, cmd)
            if m:
                ch = int(m.group(1)) if chg else 0
                return self.settings.get((verb, ch), self.DEFAULTS[verb])
        return None

    def clear(self):
        pass

    def close(self):
        pass


def parse_cmd(c):
    """SCPI string -> record in the spec's units (generic parsing; `exact` = value sits on the unit lattice)"""
    def rec(verb, ch, x, unit):
        v = x / unit
        return {"verb": verb, "ch": ch, "val": int(round(v)), "exact": bool(abs(v - round(v)) < 1e-6)}
    m = re.fullmatch(r":FREQ (\S+)", c)
    if m:
        return rec("FREQ", 0, float(m.group(1)), 1e8)
    # counts may be written as any decimal numeric (IEEE-488.2 <NRf>: 2097152, 2097152.0, 2.097152e6): the value is what the statement limits
    num = r"(-?\d+(?:\.\d*)?(?:[eE][-+]?\d+)?)"
    m = re.fullmatch(r":DIG(-?\d+):PATT:LENG " + num, c)
    if m:
        return rec("PATT:LENG", int(m.group(1)), float(m.group(2)), 1)
    m = re.fullmatch(r":DIG(-?\d+):PATT:PLEN " + num, c)
    if m:
        return rec("PATT:PLEN", int(m.group(1)), float(m.group(2)), 1)
    m = re.fullmatch(r":SKEW(-?\d+) (\S+)", c)
    if m:
        return rec("SKEW", int(m.group(1)), float(m.group(2)), 1e-12)
    m = re.fullmatch(r":VOLT(-?\d+):POS (\S+)v", c)
    if m:
        return rec("VOLT:POS", int(m.group(1)), float(m.group(2)), 0.1)
    m = re.fullmatch(r":VOLT(-?\d+):(NEG|POS):OFFS (\S+)v", c)
    if m:
        r = rec("VOLT:OFFS", int(m.group(1)), float(m.group(3)), 0.1)
        if (m.group(2) == "NEG") != (float(m.group(3)) < 0):
            r["exact"] = False
        return r
    for pat, verb in ((r":FREQ\?", "FREQ?"), (r":DIG(-?\d+):PATT:LENG\?", "PATT:LENG?"), (r":DIG(-?\d+):PATT:PLEN\?", "PATT:PLEN?"), (r":SKEW(-?\d+)\?", "SKEW?"),
                      (r":VOLT(-?\d+):POS\?", "VOLT:POS?"), (r":VOLT(-?\d+):OFFS\?", "VOLT:OFFS?"), (r":DIG(-?\d+):PATT:TYPE\?", "PATT:TYPE?"),
                      (r":DIG(-?\d+):PATT:BSH\?", "PATT:BSH?")):
        m = re.fullmatch(pat, c)
        if m:
            return {"verb": verb, "ch": int(m.group(1)) if m.groups() else 0, "val": 0, "exact": True}
    m = re.fullmatch(r":DIG(-?\d+):PATT:TYPE (DATA|PRBS)", c)
    if m:
        return {"verb": "PATT:TYPE", "ch": int(m.group(1)), "val": 1 if m.group(2) == "PRBS" else 0, "exact": True}
    m = re.fullmatch(r":OUTP(-?\d+) (ON|OFF)", c)
    if m:
        return {"verb": "OUTP", "ch": int(m.group(1)), "val": 1 if m.group(2) == "ON" else 0, "exact": True}
    m = re.fullmatch(r":DIG(-?\d+):PATT:BSH (-?\d+)", c)
    if m:
        return {"verb": "PATT:BSH", "ch": int(m.group(1)), "val": int(m.group(2)), "exact": True}
    m = re.fullmatch(r":DIG(-?\d+):PATT:DATA (\d+),(\d+),#(\d)(\d*)", c)
    if m:
        k = int(m.group(4))
        rest = m.group(5)
        hdr, bits = rest[:k], rest[k:]
        return {"verb": "PATT:DATA", "ch": int(m.group(1)), "addr": int(m.group(2)), "n": int(m.group(3)) if hdr == m.group(3) else -1,
                "digits": k, "bits": [int(b) for b in bits]}
    return {"verb": "UNPARSED:" + c[:40], "ch": -1, "val": 0, "exact": False}


def run(ctx):
    ctx.rule = ("case = one driver call (setter with a request class per limit and a channel selection, set_data/get_data with a length/"
                "address class, SYNC with a delay class) replayed from TLC or validated by TLC; class = (call, request class, selection class, "
                "length/address class); non-trivial = the call emitted commands / returned data")
    T = ctx.thorough
    import_repo()
    import opticomlib.lab as lab
    from opticomlib.typing import binary_sequence, electrical_signal, gv
    from opticomlib.devices import PRBS
    rnd = random.Random(ctx.seed)

    def new_ppg(chunk=None, maxmem=None):
        ppg = lab.PPG3204()
        if chunk:
            ppg.MAX_CHUNK_LEN, ppg.MAX_MEMORY_LEN, ppg.PATT_LEN_MAX = chunk, maxmem, maxmem   # instance attributes shadow the class constants
        ppg.inst = FakeInst(ppg.MAX_MEMORY_LEN)
        return ppg

    nsel = [0]
    nform = [0]

    def sel_arg(sel):
        # channel selections as the caller may write them: None, a bare int, a list, a tuple, an integer ndarray
        if sel == []:
            return None
        nsel[0] += 1
        k = nsel[0] % 4
        if len(sel) == 1 and k == 0:
            return sel[0]
        return [list(sel), np.array(sel), tuple(sel), list(sel)][k]

    def do_set(ppg, q, req, scalar, sel, form=None):
        vals = [v * UNIT[q] if q not in ("plen", "order") else v for v in req]
        # a request one unit beyond a limit is also made a hair (3 ppm) beyond it: still out of range, still to be clamped
        LIM = {"freq": (15, 320), "amp": (3, 20), "offs": (-20, 30), "skew": (-25, 25)}
        if q in LIM and nform[0] % 2 == 1:
            lo_, hi_ = LIM[q]
            vals = [(hi_ * UNIT[q] + abs(hi_ * UNIT[q]) * 3e-6) if v_ == hi_ + 1 else ((lo_ * UNIT[q] - abs(lo_ * UNIT[q]) * 3e-6) if v_ == lo_ - 1 else x_)
                    for v_, x_ in zip(req, vals)]
        # the caller may pass whole-number requests as integers (Python int, integer ndarray), floats, lists, tuples or arrays
        nform[0] += 1
        whole = all(abs(v - round(v)) < 1e-9 for v in vals) and q in ("amp", "offs", "plen", "order")
        if whole and nform[0] % 3 == 0:
            vals = [int(round(v)) for v in vals]
        arg = vals[0] if scalar else [list(vals), np.array(vals), tuple(vals)][nform[0] % 3]
        if form is not None:     # a pinned spelling of a whole-number request: integer-typed scalar / list / ndarray / tuple
            ivals = [int(round(v)) for v in vals]
            arg = {"int": lambda: ivals[0], "npint": lambda: np.int64(ivals[0]), "list": lambda: list(ivals), "ndarray": lambda: np.array(ivals),
                   "tuple": lambda: tuple(ivals), "i2": lambda: np.array(ivals, dtype=np.int16)}[form]()
        ppg.inst.log.clear()
        raised = False
        with warnings.catch_warnings(record=True) as w:
            warnings.simplefilter("always")
            try:
                with deadline(30):
                    if q == "freq":
                        ppg.set_freq(arg)
                    else:
                        {"amp": ppg.set_output_voltage, "offs": ppg.set_offset, "skew": ppg.set_skew, "plen": ppg.set_patt_len,
                         "order": ppg.set_prbs_order}[q](arg, sel_arg(sel))
            except Exception as e:
                raised = type(e).__name__
        return [parse_cmd(c) for c in ppg.inst.log], any(issubclass(x.category, UserWarning) for x in w), raised

    def do_flag(ppg, verb, val, sel):
        ppg.inst.log.clear()
        raised = False
        with warnings.catch_warnings(record=True) as w:
            warnings.simplefilter("always")
            try:
                with deadline(30):
                    if verb == "PATT:TYPE":
                        ppg.set_mode(["data", "PRBS"][val] if val else rnd.choice(["DATA", "data"]), sel_arg(sel))
                    elif verb == "OUTP":
                        (ppg.enable_outputs if val else ppg.disable_outputs)(sel_arg(sel))
                    else:
                        ppg.set_bits_shift(val, sel_arg(sel))
            except Exception as e:
                raised = type(e).__name__
        return [parse_cmd(c) for c in ppg.inst.log], any(issubclass(x.category, UserWarning) for x in w), raised

    def do_config(ppg, c, bits, sel, via):
        o = lambda k: None if c[k] == [] else c[k][0]
        kw = dict(freq=None if o("freq") is None else o("freq") * 1e8, patt_len=o("plen"), Vout=None if o("amp") is None else o("amp") * 0.1,
                  offset=None if o("offs") is None else o("offs") * 0.1, bsh=o("bsh"), skew=None if o("skew") is None else o("skew") * 1e-12,
                  mode=None if o("mode") is None else ["DATA", "PRBS"][o("mode")], order=o("order"),
                  data=None if o("data") is None else np.array(bits if bits else [0, 1] * 3), CHs=sel_arg(sel))
        ppg.inst.log.clear()
        raised = False
        with warnings.catch_warnings(record=True) as w:
            warnings.simplefilter("always")
            try:
                with deadline(60):
                    (ppg if via == "call" else ppg.config)(**kw)
            except Exception as e:
                raised = type(e).__name__
        return [parse_cmd(x) for x in ppg.inst.log], any(issubclass(x.category, UserWarning) for x in w), raised

    def do_get(ppg, q, sel):
        ppg.inst.log.clear()
        raised, vals = False, []
        with warnings.catch_warnings():
            warnings.simplefilter("ignore")
            try:
                with deadline(30):
                    if q == "freq":
                        out = [ppg.get_freq()]
                    else:
                        out = {"amp": ppg.get_output_voltage, "offs": ppg.get_offset, "skew": ppg.get_skew, "plen": ppg.get_patt_len, "order": ppg.get_prbs_order,
                               "PATT:TYPE": ppg.get_mode, "PATT:BSH": ppg.get_bits_shift}[q](sel_arg(sel))
                    for v in out:
                        if q == "PATT:TYPE":
                            vals.append(1 if str(v).strip().upper() == "PRBS" else 0)
                        else:
                            u = UNIT.get(q, 1)
                            vals.append(int(round(float(v) / u)))
            except Exception as e:
                raised = type(e).__name__
        return [parse_cmd(c) for c in ppg.inst.log], vals, raised

    def apply_prev(ppg, prev):
        if prev["op"] == "set":
            do_set(ppg, prev["q"], prev["req"], prev["scalar"], prev["sel"])
        elif prev["op"] == "flag":
            do_flag(ppg, prev["verb"], prev["val"], prev["sel"])
        elif prev["op"] == "config":
            do_config(ppg, prev["c"], prev["bits"], prev["sel"], "call")
        return [parse_cmd(c) for c in ppg.inst.log]

    def do_set_data(ppg, bits, addr, sel, form):
        ppg.inst.log.clear()
        data = "".join(map(str, bits)) if form == "str" else (list(bits) if form == "list" else np.array(bits))
        raised = False
        with warnings.catch_warnings(record=True) as w:
            warnings.simplefilter("always")
            try:
                with deadline(60):
                    ppg.set_data(data, addr, sel_arg(sel))
            except Exception as e:
                raised = type(e).__name__
        return [parse_cmd(c) for c in ppg.inst.log], any(issubclass(x.category, UserWarning) for x in w), raised

    def do_get_data(ppg, size, addr, sel):
        raised, data = False, []
        with warnings.catch_warnings():
            warnings.simplefilter("ignore")
            try:
                with deadline(60):
                    out = ppg.get_data(size, addr, sel_arg(sel))
                data = [[int(b) for b in np.asarray(row).ravel()] for row in out]
            except Exception as e:
                raised = type(e).__name__
        return data, raised

    # ------------------------------------------------------------------ 1. model checking + replay of every TLC state
    CH, MM = 4, 12
    r = ctx.tlc("PPGModel", f"SPECIFICATION Spec\nINVARIANT EveryCmdInRange\nINVARIANT ChunkingCorrect\nINVARIANT RoundTrip\nINVARIANT ConfigIsComposition\nINVARIANT ReadBackInRange\nINVARIANT Emit\n"
                f"CHECK_DEADLOCK FALSE\nCONSTANTS Chunk = {CH}\n MaxMem = {MM}\n MaxOps = 1\n", workers=1, note="setters x request classes x selections; single data ops")
    ctx.tlc("PPGModel", f"SPECIFICATION Spec\nINVARIANT EveryCmdInRange\nINVARIANT ChunkingCorrect\nINVARIANT RoundTrip\n"
            f"CHECK_DEADLOCK FALSE\nCONSTANTS Chunk = {CH}\n MaxMem = {MM}\n MaxOps = {3 if T else 2}\n", note="data histories", timeout=3000, actions=["Setter", "SetFlag", "Config", "SetData", "GetData"])
    ctx.tlc("Sync", f"SPECIFICATION Spec\nINVARIANT SyncFindsDelay\nCHECK_DEADLOCK FALSE\nCONSTANTS MaxSlots = {6 if T else 5}\n Sps = 2\n", note="SYNC model")
    ctx.exhaustive = True
    evs = parse_ev(r.out)
    if len(evs) != r.distinct - 1:
        raise MachineryError(f"parsed {len(evs)} of {r.distinct - 1} states")
    events, meta = [], []
    for ev in evs:
        last = ev["last"]
        ppg = new_ppg(CH, MM)
        if last["op"] == "set":
            cmds, warned, raised = do_set(ppg, last["q"], last["req"], last["scalar"], last["sel"])
            events.append({"kind": "set", "q": last["q"], "req": last["req"], "scalar": last["scalar"], "sel": last["sel"],
                           "cmds": cmds, "warned": warned, "raised": bool(raised)})
            lo, hi = {"freq": (15, 320), "amp": (3, 20), "offs": (-20, 30), "skew": (-25, 25), "plen": (2, MM), "order": (7, 31)}[last["q"]]
            rc = tuple("below" if v < lo else ("above" if v > hi else ("edge" if v in (lo, hi) else "inside")) for v in last["req"])
            selc = "none" if not last["sel"] else (("long" if len(last["sel"]) > 4 else "") + ("oor" if any(s < 1 or s > 4 for s in last["sel"]) else "ok") + str(min(len(last["sel"]), 2)))
            meta.append(("set", last["q"], rc, selc, raised))
            ctx.case(("set", last["q"], rc, selc, last["scalar"]), {"call": last, "emitted": cmds}, nontrivial=bool(cmds))
        elif last["op"] == "flag":
            cmds, warned, raised = do_flag(ppg, last["verb"], last["val"], last["sel"])
            events.append({"kind": "flag", "verb": last["verb"], "val": last["val"], "sel": last["sel"], "cmds": cmds, "warned": warned, "raised": bool(raised)})
            meta.append(("flag", last["verb"], last["val"], tuple(last["sel"]), raised))
            ctx.case(("flag", last["verb"], last["val"], len(last["sel"]), any(x < 1 or x > 4 for x in last["sel"])), {"call": last, "emitted": cmds[:2]}, nontrivial=bool(cmds))
        elif last["op"] == "config":
            cmds, warned, raised = do_config(ppg, last["c"], last["bits"], last["sel"], rnd.choice(["call", "config"]))
            events.append({"kind": "config", "c": last["c"], "bits": last["bits"], "sel": last["sel"], "cmds": cmds, "warned": warned, "raised": bool(raised)})
            given = tuple(k for k in sorted(last["c"]) if last["c"][k] != [])
            meta.append(("config", given, tuple(last["sel"]), raised))
            ctx.case(("config", given, len(last["sel"])), {"call": last["c"], "sel": last["sel"], "emitted": len(cmds)}, nontrivial=bool(cmds))
        elif last["op"] == "get":
            if last["q"] == "OUTP":
                events.append({"kind": "reset"}); meta.append(("reset",))
                continue                               # the driver has no output-state query
            prev = last["prev"]
            if prev["op"] != "init":
                pc = apply_prev(ppg, prev)
                kindmap = {"set": "set", "flag": "flag", "config": "config"}
                base = {"kind": kindmap[prev["op"]], "cmds": pc, "warned": True, "raised": False, "sel": prev["sel"]}
                if prev["op"] == "set":
                    base.update(q=prev["q"], req=prev["req"], scalar=prev["scalar"], warned=prev["warn"])
                elif prev["op"] == "flag":
                    base.update(verb=prev["verb"], val=prev["val"], warned=prev["warn"])
                else:
                    base.update(c=prev["c"], bits=prev["bits"], warned=prev["mustwarn"])
                events.append(base)
                meta.append((prev["op"], "before-get", "", "", False))
            cmds, vals, raised = do_get(ppg, last["q"], last["sel"])
            events.append({"kind": "get", "q": last["q"], "sel": last["sel"], "cmds": cmds, "vals": vals, "raised": bool(raised)})
            meta.append(("get", last["q"], prev["op"], tuple(last["sel"]), raised))
            ctx.case(("get", last["q"], prev["op"], len(last["sel"])), {"get": last["q"], "after": prev["op"], "vals": vals})
        elif last["op"] == "set_data":
            cmds, warned, raised = do_set_data(ppg, last["bits"], last["addr"], last["sel"], rnd.choice(["str", "list", "ndarray"]))
            events.append({"kind": "set_data", "bits": last["bits"], "addr": last["addr"], "sel": last["sel"], "cmds": cmds,
                           "warned": warned, "raised": bool(raised)})
            meta.append(("set_data", len(last["bits"]), last["addr"], tuple(last["sel"]), raised))
            ctx.case(("set_data", len(last["bits"]), last["addr"], len(last["sel"])), {"call": {k: last[k] for k in ("bits", "addr", "sel")}, "emitted": cmds[:3]})
            # read back what was just written (set_data; get_data of the same range)
            n = min(len(last["bits"]), MM - last["addr"] + 1)
            data, raised = do_get_data(ppg, n, last["addr"], last["sel"])
            events.append({"kind": "get_data", "size": n, "addr": last["addr"], "sel": last["sel"], "data": data, "raised": bool(raised)})
            meta.append(("get_data", n, last["addr"], tuple(last["sel"]), raised))
            ctx.case(("get_data-after-set", n, last["addr"], len(last["sel"])))
        elif last["op"] == "get_data":
            data, raised = do_get_data(ppg, last["size"], last["addr"], last["sel"])
            events.append({"kind": "get_data", "size": last["size"], "addr": last["addr"], "sel": last["sel"], "data": data, "raised": bool(raised)})
            meta.append(("get_data", last["size"], last["addr"], tuple(last["sel"]), raised))
            ctx.case(("get_data-empty", last["size"], last["addr"], len(last["sel"])))
        # each replayed state is an independent one-call history: reset marker for the monitor
        events.append({"kind": "reset"})
        meta.append(("reset",))
    ctx.behaviours += len(evs)
    validate(ctx, events, meta, CH, MM, "replayed model states")
    # dry-run mode (no instrument): commands are printed; same clamping
    for q, v in [("amp", 50), ("offs", -50), ("freq", 1000), ("skew", 99), ("plen", 1), ("order", 8)]:
        ppg = lab.PPG3204()
        buf = io.StringIO()
        try:
            with contextlib.redirect_stdout(buf), warnings.catch_warnings():
                warnings.simplefilter("ignore")
                if q == "freq":
                    ppg.set_freq(v * UNIT[q])
                else:
                    {"amp": ppg.set_output_voltage, "offs": ppg.set_offset, "skew": ppg.set_skew, "plen": ppg.set_patt_len,
                     "order": ppg.set_prbs_order}[q](v * UNIT[q] if q not in ("plen", "order") else v, 2)
            cmds = [parse_cmd(c) for c in buf.getvalue().split()[0:0] + buf.getvalue().strip().split("\n") if c]
            raised = False
        except Exception as e:
            cmds, raised = [], type(e).__name__
        events = [{"kind": "set", "q": q, "req": [v], "scalar": True, "sel": [2], "cmds": cmds, "warned": True, "raised": bool(raised)}]
        validate(ctx, events, [("set-dryrun", q, ("oor",), "ok1", raised)], 1024, 2 ** 21, "dry-run")
        ctx.case(("dryrun", q))
    # ------------------------------------------------------------------ 2. random histories with the real constants
    for tr in range(40 if T else 4):
        ppg = new_ppg()
        events, meta = [], []
        for step in range(40):
            u = rnd.random()
            sel = rnd.choice([[], [1], [3], [2, 4], [1, 2, 3, 4], [0], [7], [4, 5], [1, 1, 2, 3, 4, 4]])
            if u < 0.45:
                q = rnd.choice(["freq", "amp", "offs", "skew", "plen", "order"])
                lo, hi = {"freq": (15, 320), "amp": (3, 20), "offs": (-20, 30), "skew": (-25, 25), "plen": (2, 2 ** 21), "order": (7, 31)}[q]
                def rv():
                    k = rnd.random()
                    if k < 0.5:
                        return rnd.randrange(lo, hi + 1)
                    if k < 0.7:
                        return rnd.choice([lo - 1, hi + 1, lo, hi])
                    return rnd.choice([-1, 1]) * rnd.choice([1, 10, 100, 1000, 10000]) * rnd.randrange(1, 99)
                scalar = q == "freq" or rnd.random() < 0.6
                req = [rv()] if scalar else [rv() for _ in range(rnd.randrange(1, 6))]
                if rnd.random() < 0.15:          # absurdly large requests (beyond 64-bit integers / 1e30): clamped like any other
                    # (PRBS orders of 2^63.. are left out: every supported order is "nearest" to them in double precision, and the statement does not say which)
                    req[0] = rnd.choice([2 ** 63, 2 ** 64, 10 ** 30, -(10 ** 30)]) if q == "plen" else (rnd.choice([10 ** 30, -(10 ** 30), 10 ** 12]) if q == "order" else rnd.choice([10 ** 18, -(10 ** 18), 10 ** 24]))
                cmds, warned, raised = do_set(ppg, q, req, scalar, sel)
                req = [max(-10 ** 9, min(10 ** 9, v_)) for v_ in req]       # (logged within TLC's integers: the clamp is the same)
                events.append({"kind": "set", "q": q, "req": req, "scalar": scalar, "sel": sel, "cmds": cmds, "warned": warned, "raised": bool(raised)})
                meta.append(("set", q, "random", "sel", raised))
                ctx.case(("rset", q, scalar, len(sel) > 0, any(v < lo or v > hi for v in req)))
            elif u < 0.75:
                n = rnd.choice([1, 2, 1023, 1024, 1025, 2047, 2048, 2049, 3072, rnd.randrange(1, 10001)])
                addr = rnd.choice([1, 2, 1024, 1025, rnd.randrange(1, 5000), 2 ** 21 - n + 1, 2 ** 21 - n // 2])
                addr = max(1, addr)
                bits = [int(b) for b in np.random.RandomState(step + tr).randint(0, 2, n)]
                cmds, warned, raised = do_set_data(ppg, bits, addr, sel, rnd.choice(["str", "list", "ndarray"]))
                events.append({"kind": "set_data", "bits": bits, "addr": addr, "sel": sel, "cmds": cmds, "warned": warned, "raised": bool(raised)})
                meta.append(("set_data", n, addr, tuple(sel), raised))
                ctx.case(("rset_data", (n - 1) // 1024 if n < 4000 else 4, n % 1024 in (0, 1, 1023), addr > 2 ** 20))
                keep = (n, addr)
            else:
                n, addr = keep if ("keep" in dir() and rnd.random() < 0.7) else (rnd.choice([1, 1024, 1025, 2048, 3000]), rnd.randrange(1, 3000))
                n = min(n, 2 ** 21 - addr + 1)
                data, raised = do_get_data(ppg, n, addr, sel)
                events.append({"kind": "get_data", "size": n, "addr": addr, "sel": sel, "data": data, "raised": bool(raised)})
                meta.append(("get_data", n, addr, tuple(sel), raised))
                ctx.case(("rget_data", (n - 1) // 1024 if n < 4000 else 4, n % 1024 == 0))
        validate(ctx, events, meta, 1024, 2 ** 21, "random history (real constants)")
    # absurdly large requests, every quantity (deterministic): clamped and warned like any other out-of-range value
    ppg = new_ppg()
    events, meta = [], []
    for q, vals_ in (("plen", [2 ** 63, 2 ** 64, 10 ** 30, -(10 ** 30), 2 ** 40]), ("order", [10 ** 30, -(10 ** 30), 10 ** 12]), ("freq", [10 ** 18, 10 ** 24, -(10 ** 18)]),
                     ("amp", [10 ** 18, -(10 ** 24)]), ("offs", [10 ** 18, -(10 ** 24)]), ("skew", [10 ** 18, -(10 ** 18)])):
        for v_ in vals_:
            for sel in ([], [2, 4]):
                cmds, warned, raised = do_set(ppg, q, [v_], True, sel)
                events.append({"kind": "set", "q": q, "req": [max(-10 ** 9, min(10 ** 9, v_))], "scalar": True, "sel": sel, "cmds": cmds, "warned": warned, "raised": bool(raised)})
                meta.append(("set", q, "absurd", "sel", raised))
        ctx.case(("rset-absurd", q))
    # ... and as one element of a per-channel list (numpy then holds the whole list as floats: the lengths go out as 2097152.0, 2.0 - in range all the same)
    for req_ in ([2 ** 63, 1730608, 2, 1], [5, 10 ** 30, 7, 2 ** 64], [2 ** 21, 2 ** 64]):
        for sel in ([], [7], [1, 3, 2, 4]):
            cmds, warned, raised = do_set(ppg, "plen", req_, False, sel)
            events.append({"kind": "set", "q": "plen", "req": [max(-10 ** 9, min(10 ** 9, v_)) for v_ in req_], "scalar": False, "sel": sel, "cmds": cmds, "warned": warned, "raised": bool(raised)})
            meta.append(("set", "plen", "absurd-in-list", "sel", raised))
    ctx.case(("rset-absurd-list", "plen"))
    validate(ctx, events, meta, 1024, 2 ** 21, "absurd requests (real constants)")
    # whole-number requests written as integers (deterministic): below, inside and above the range, every spelling, every quantity that takes volts or counts
    ppg = new_ppg()
    events, meta = [], []
    for q, reqs in (("amp", [[0], [-10], [10], [50], [0, 10, 30, -20]]), ("offs", [[-30], [40], [0], [10], [-30, 0, 40, 20]]),
                    ("plen", [[0], [1], [2], [2 ** 21 + 1], [1, 2, 3, 2 ** 21 + 5]]), ("order", [[0], [8], [7], [40], [8, 9, 13, 30]])):
        for req in reqs:
            for form in ((("int",) if len(req) == 1 else ()) + ("list", "ndarray", "tuple", "i2")):   # (numpy integer scalars are outside the documented argument types)
                if form == "i2" and max(abs(v) for v in req) > 30000:
                    continue
                scalar = form == "int"
                for sel in ([], [2, 4], [1, 2, 3, 4]):
                    cmds, warned, raised = do_set(ppg, q, req, scalar, sel, form=form)
                    events.append({"kind": "set", "q": q, "req": list(req), "scalar": scalar, "sel": sel, "cmds": cmds, "warned": warned, "raised": bool(raised)})
                    meta.append(("set", q, "integer-typed " + form, "sel", raised))
                ctx.case(("rset-int", q, form, len(req) > 1))
    validate(ctx, events, meta, 1024, 2 ** 21, "integer-typed requests (real constants)")
    # ------------------------------------------------------------------ 3. SYNC
    events, meta = [], []
    for k in range(400 if T else 40):
        order = rnd.choice([7, 7, 9])
        sps = rnd.choice([2, 4, 8]) if k % 3 else [3, 5, 1, 7][(k // 3) % 4]          # odd numbers of samples per slot (odd pattern lengths in samples) too
        slots = PRBS(order, rnd.choice([2 ** order - 1, 100, 64]) if k % 3 else 2 ** order - 1, seed=rnd.randrange(1, 100))
        if k % 10 == 7:      # a long pattern whose first 512 slots recur later in the period: [A, A, B]
            from opticomlib.typing import binary_sequence as _bs
            A_ = PRBS(9, 512, seed=3 + k).data
            B_ = PRBS(11, 300, seed=5 + k).data
            slots = _bs(np.concatenate([A_, A_, B_]))
            sps, order = 8, 1
        if k % 5 == 4:       # short words with a single cyclic correlation peak (a 12-slot word, Barker-13, a 16-slot word)
            from opticomlib.typing import binary_sequence as _bs
            slots = _bs(["111001011000", "1111100110101", "1110010110000100"][(k // 5) % 3])
            order = 0
        tx = np.kron(slots.data, np.ones(sps))
        l = tx.size
        d = rnd.choice([0, 0, 1, l - 1, l // 2, rnd.randrange(0, l), l // 2 + 1 + rnd.randrange(0, max(1, l // 2 - 1))])
        rx = np.roll(np.tile(tx, 3), d).astype(float)
        sigma = rnd.choice([0.0, 0.02, 0.1])
        np.random.seed(k)
        rx = rx + sigma * np.random.randn(rx.size)
        # the received record as stored by an acquisition front end: float64, float32, or raw integer counts in a narrow dtype
        store = ["f8", "f8", "i1", "i2", "f4", "u1", "i2x100", "i4"][k % 8]
        if store in ("i1", "u1", "i2", "i4"):
            rx = np.round(rx).astype({"i1": np.int8, "u1": np.uint8, "i2": np.int16, "i4": np.int32}[store]) if sigma < 0.05 else rx
        elif store == "i2x100":
            rx = np.round(100 * rx).astype(np.int16)
        elif store == "f4":
            rx = rx.astype(np.float32)
        raised, idx, same = "none", -1, False
        try:
            with deadline(60):
                if k % 2:
                    gv(sps=sps, R=1e9)
                    out, idx = lab.SYNC(electrical_signal(rx), slots)
                else:
                    out, idx = lab.SYNC(rx, slots.data, sps)
            idx = int(idx)
            same = bool(out.len() > 0 and np.array_equal(out.signal[:16], rx[d:d + 16]))
        except Exception as e:
            raised = type(e).__name__
        events.append({"kind": "sync", "d": int(d), "idx": idx, "samestart": same, "raised": raised, "short": False})
        meta.append(("sync", order, sps, "d=0" if d == 0 else "d>0", sigma))
        ctx.case(("sync", order, sps, d == 0, sigma > 0, str(rx.dtype)))
        if k < 6:
            try:
                lab.SYNC(rx[:l - 1 - k], slots.data, sps)
                raised = "none"
            except Exception as e:
                raised = type(e).__name__
            events.append({"kind": "sync", "d": 0, "idx": -1, "samestart": False, "raised": raised, "short": True})
            meta.append(("sync-short", order, sps, "", 0))
            ctx.case(("sync-short", order), None, nontrivial=False)
    # the same slot pattern located at one number of samples per slot, then at another, then at the first again (both call styles):
    # each call stands on its own arguments / the configuration in force
    from opticomlib.typing import binary_sequence as _bs2
    for w_i, word in enumerate(["1110010110000100", "1111100110101"]):
        slots = _bs2(word)
        for j_, sps in enumerate([4, 8, 4, 2, 8]):
            tx = np.kron(slots.data, np.ones(sps))
            l = tx.size
            d = [5, 37 % l, l - 1, 3, 0][j_]
            np.random.seed(900 + j_)
            rx = np.roll(np.tile(tx, 3), d).astype(float) + 0.05 * np.random.randn(3 * l)
            raised, idx, same = "none", -1, False
            try:
                with deadline(60):
                    if w_i:
                        gv(sps=sps, R=1e9)
                        out, idx = lab.SYNC(electrical_signal(rx), slots)
                    else:
                        out, idx = lab.SYNC(rx, slots.data, sps)
                idx = int(idx)
                same = bool(out.len() > 0 and np.array_equal(out.signal[:16], rx[d:d + 16]))
            except Exception as e:
                raised = type(e).__name__
            events.append({"kind": "sync", "d": int(d), "idx": idx, "samestart": same, "raised": raised, "short": False})
            meta.append(("sync-same-pattern-other-sps", w_i, sps, "d=0" if d == 0 else "d>0", 0.05))
            # a record shorter than the pattern AT THIS sps is rejected (it would have been long enough at the previous one)
            try:
                lab.SYNC(rx[:l - 1], slots.data, sps)
                raised = "none"
            except Exception as e:
                raised = type(e).__name__
            events.append({"kind": "sync", "d": 0, "idx": -1, "samestart": False, "raised": raised, "short": True})
            meta.append(("sync-short", w_i, sps, "", 0))
            ctx.case(("sync-other-sps", w_i, sps))
    # a pattern buffer that is REFILLED IN PLACE between acquisitions (same array object, same size, same sps): every call aligns to
    # the pattern its argument holds at the time of the call (C20_r12m1: reference waveform cached by object identity)
    for w_i, (wa, wb) in enumerate([("1110010110000100", "0010000110100111"), ("1111100110101", "1010110011111")]):
        buf = np.array([int(c) for c in wa], dtype=np.uint8)
        holder = _bs2(wa)
        for j_, word in enumerate([wa, wb, wa, wb]):
            sps = 4
            new = np.array([int(c) for c in word], dtype=np.uint8)
            buf[:] = new
            try:
                holder.data[:] = new
            except Exception:
                holder = _bs2(word)
            tx = np.kron(new, np.ones(sps))
            l = tx.size
            d = [7, 21 % l, l - 2, 0][j_]
            np.random.seed(950 + j_)
            rx = np.roll(np.tile(tx, 3), d).astype(float) + 0.05 * np.random.randn(3 * l)
            for style in ("array", "sequence"):
                raised, idx, same = "none", -1, False
                try:
                    with deadline(60):
                        if style == "sequence":
                            gv(sps=sps, R=1e9)
                            out, idx = lab.SYNC(electrical_signal(rx), holder)
                        else:
                            out, idx = lab.SYNC(rx, buf, sps)
                    idx = int(idx)
                    same = bool(out.len() > 0 and np.array_equal(out.signal[:16], rx[d:d + 16]))
                except Exception as e:
                    raised = type(e).__name__
                events.append({"kind": "sync", "d": int(d), "idx": idx, "samestart": same, "raised": raised, "short": False})
                meta.append(("sync-buffer-refilled-in-place", w_i, style, "d=0" if d == 0 else "d>0", 0.05))
                ctx.case(("sync-refilled", w_i, style, j_))
    gv.clean()
    validate(ctx, events, meta, 1024, 2 ** 21, "SYNC")


def validate(ctx, events, meta, chunk, maxmem, note):
    """stateful monitor run; events are split at {"kind": "reset"} markers into independent traces inside one file by
    giving the monitor a fresh memory (reset is encoded as a set_data-free boundary: we simply run one TLC per batch of
    histories that do not share memory - for replayed states every history is one or two events on a fresh instrument)."""
    # histories separated by reset markers use disjoint fresh instruments; the monitor memory must be reset too
    batches, cur = [], []
    for e, m in zip(events, meta):
        if e["kind"] == "reset":
            if cur:
                batches.append(cur)
            cur = []
        else:
            cur.append((e, m))
    if cur:
        batches.append(cur)
    # every history runs on its own fresh simulated instrument: the monitor's memory and settings are wiped in between
    merged, metas = [], []
    for gi, g in enumerate(batches):
        if gi > 0:
            merged.append({"kind": "wipe"})
            metas.append(("wipe",))
        for e, m in g:
            merged.append(e)
            metas.append(m)
    f = ctx.newfile("ppgtrace", "ndjson")
    with open(f, "w") as fh:
        for e in merged:
            fh.write(json.dumps(e) + "\n")
    out = ctx.newfile("ppgtrace_out", "json")
    ctx.tlc("PPGTrace", f"SPECIFICATION Spec\nINVARIANT Done\nCHECK_DEADLOCK FALSE\nCONSTANTS Chunk = {chunk}\n MaxMem = {maxmem}\n",
            env={"IN_FILE": f, "OUT_FILE": out}, workers=1, note="PPG trace: " + note, count=False, timeout=3000)
    res = json.load(open(out))
    if res["n"] != len(merged):
        raise MachineryError("PPG trace not fully consumed")
    ctx.traces += 1
    ctx.events += len(merged)
    for idx, clause in res["bad"]:
        m = metas[idx - 1]
        ctx.violation(f"{m[0]}:{m[1]}:{clause}", f"event {m} breaks {clause}", {"event": merged[idx - 1], "history": merged[max(0, idx - 4):idx]})
