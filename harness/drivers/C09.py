"""C09 - PD is a square-law detector with unit DC gain and the documented noise powers.
Spec: Detector.tla / DetectorModel.tla (algebra, selection table, verdicts), Units.tla (variances), DetectorTrace.tla."""
import random, math, warnings
import numpy as np
from scipy.constants import k as KB, e as QE
from ..core import deadline, import_repo, MachineryError, fresh_repo
from ..rng_tap import tap

LEVEL = "model_checking"


def evalmono(m, vals):
    v = m["num"] / m["den"]
    for s, p in m["pow"].items():
        v *= vals[s] ** p
    return v


def run(ctx):
    ctx.rule = ("case = one PD call with numpy's RNG tapped and its noise decomposed, or one law residual, judged by TLC; class = (selection string, "
                "layout, optical noise present, letter case, parameter class) resp. (law, layout, length class)")
    T = ctx.thorough
    ctx.tlc("DetectorModel", "SPECIFICATION Spec\nINVARIANT PhaseInvariant\nINVARIANT UnitaryInvariant\nINVARIANT Quadratic\nINVARIANT BeatDecomposition\n"
            "INVARIANT TermsExactlySelected\nCHECK_DEADLOCK FALSE\nCONSTANTS MaxLen = %d\n" % (3 if T else 2), note="square-law algebra and selection table")
    monos = ctx.tlc_eval("UnitsEmit", note="variance monomials (dimension-checked by TLC)")
    ctx.exhaustive = True
    import_repo()
    from opticomlib.devices import PD, LPF
    from opticomlib.typing import gv, optical_signal, electrical_signal
    rnd = random.Random(ctx.seed)
    events, meta = [], []

    def rel(a, b):
        a, b = np.asarray(a), np.asarray(b)
        if a.shape != b.shape or not np.all(np.isfinite(a)) or not np.all(np.isfinite(b)):
            return 10 ** 9
        return int(min(10 ** 9, float(np.max(np.abs(a - b)) / max(np.max(np.abs(b)), 1e-300)) * 1e12))

    def law(name, a, b):
        events.append({"kind": "law", "name": name, "ppt": rel(a, b)})
        meta.append(("law", name))

    def setgv(i):
        with warnings.catch_warnings():
            warnings.simplefilter("ignore")
            if i % 4 == 3:
                gv(R=4e9, fs=10e9)              # fs/R not an integer: the devices must use fs itself
            else:
                gv(sps=[16, 8, 4][i % 3], R=[1e9, 10e9, 2.5e9][i % 3])

    SEL = ["ase-only", "thermal-only", "shot-only", "ase-thermal", "ase-shot", "thermal-shot", "all"]
    for it in range(700 if T else 49):
        setgv(it)
        fs = gv.fs
        n = rnd.choice([64, 100, 257, 1024])
        npol = 1 + (it // 7) % 2
        noisy = (it // 14) % 2 == 0
        rs = np.random.RandomState(it)
        s = (rs.randn(npol, n) + 1j * rs.randn(npol, n)) * 1e-2 + 0.02
        nz = (rs.randn(npol, n) + 1j * rs.randn(npol, n)) * 2e-3 if noisy else None
        dark = it % 7 in (2, 5, 6) and (it // 7) % 3 == 1       # no light at all: the dark current alone produces shot noise
        if dark:
            s, nz, noisy = s * 0, None, False
        if it % 5 == 2 and not dark:          # real-valued (float dtype) field and noise
            s = np.abs(s.real) + 0.01
            nz = None if nz is None else nz.real.copy()
        intfield = it % 5 == 4 and not dark
        if intfield:          # a field stored as integers (sqrt(W) units), integer-typed responsivity and load: nothing may be truncated
            s = np.round(np.abs(s.real) * 100).astype(np.int64) + 1
            nz = None if nz is None else np.round(nz.real * 500).astype(np.int64)
        x = optical_signal(s if npol == 2 else s[0], None if nz is None else (nz if npol == 2 else nz[0]))
        for a in (x.signal, x.noise):
            if a is not None:
                a.flags.writeable = False
        sel = SEL[it % 7]
        shown = [sel, sel.upper(), sel.title()][it % 3]
        r_, Tk, RL = rnd.choice([1.0, 0.5, 0.9]), rnd.choice([300.0, 77.0, 400.0]), rnd.choice([50.0, 1e3, 10.0])
        BW, idark, Fn = rnd.uniform(0.05, 0.45) * fs, rnd.choice([10e-9, 0.0, 1e-6]), rnd.choice([0, 3.0, 6])
        if intfield:
            r_, RL, Tk = 1, rnd.choice([50, 10]), rnd.choice([300, 77])
        if dark:
            idark = rnd.choice([10e-9, 1e-6])
        np.random.seed(it)
        with tap() as t, deadline(120):
            out = PD(x, BW, r_, Tk, RL, shown, idark, Fn)
        ok_len = type(out) is electrical_signal and out.len() == n and out.noise is not None and out.noise.shape == (n,)
        if not ok_len:
            events.append({"kind": "call", "sel": sel, "len_ok": False, "gauss": [], "remainder_ppt": 0, "offset_ppm": 0})
            meta.append(("call", sel, npol, noisy))
            continue
        # deterministic part of the noise through equations between API programs (Detector!Beat): PD(total) - PD(signal)
        tot = optical_signal(x.signal + x.noise) if noisy else x
        np.random.seed(1)
        sig_tot = PD(tot, BW, r_, Tk, RL, "ase-only", 0.0, Fn).signal
        sig_sig = PD(optical_signal(x.signal), BW, r_, Tk, RL, "ase-only", 0.0, Fn).signal
        law("signal-part-deterministic", out.signal + 1, sig_sig + 1)
        beat = (sig_tot - sig_sig) if ("ase" in sel or sel == "all") else np.zeros(n)
        R = np.asarray(out.noise, dtype=float) - beat
        rows = [u for (u, sc) in t.rows() if sc is not None and np.asarray(u).shape == (n,)]
        if not rows and sel != "ase-only":
            # the library's draws were not recognisable (a legitimate refactoring of the generator): the statement's own statistical
            # clause - variance of what the beating does not explain against the selected variances times the output filter's
            # noise-equivalent gain, with an acceptance band calibrated on 300 reference realisations through the same filter
            vals_ = {"kB": KB, "T": Tk, "Fn": 10 ** (Fn / 10), "B": fs / 2, "R": RL, "e": QE, "r": r_, "idark": idark,
                     "P": float(np.sum(np.mean(np.abs(np.atleast_2d(x.signal)) ** 2, axis=-1)) + (np.sum(np.mean(np.abs(np.atleast_2d(x.noise)) ** 2, axis=-1)) if noisy else 0.0))}
            want_var = 0.0
            if "thermal" in sel or sel == "all":
                want_var += evalmono(monos["thermal_A2"], vals_)
            if "shot" in sel or sel == "all":
                want_var += evalmono(monos["shot_signal_A2"], vals_) + evalmono(monos["shot_dark_A2"], vals_)
            want_var *= RL ** 2
            rr = np.random.RandomState(12345 + it)
            refs = [np.asarray(LPF(rr.randn(n), BW).signal, dtype=float) for _ in range(300)]
            rv, rm = [float(np.var(v_)) for v_ in refs], [abs(float(np.mean(v_))) for v_ in refs]
            meas_var, meas_off = float(np.var(R)), float(np.mean(R)) - idark * RL
            var_ok = (meas_var <= 1e-30 * max(np.max(np.abs(out.noise)) ** 2, 1e-300)) if want_var == 0 else (min(rv) / 1.3 <= meas_var / want_var <= max(rv) * 1.3)
            off_ok = abs(meas_off) <= 1.5 * max(rm) * math.sqrt(max(want_var, 0.0)) + 1e-9 * abs(idark * RL) + 1e-300
            events.append({"kind": "callstat", "sel": sel, "len_ok": True, "var_ok": bool(var_ok), "offset_ok": bool(off_ok)})
            meta.append(("call", sel, npol, noisy))
            ctx.case(("call-statistical", sel, npol, noisy), None)
            continue
        basis = [np.asarray(LPF(np.asarray(u, dtype=float), BW).signal, dtype=float) for u in rows] + [np.ones(n)]
        A = np.array(basis).T
        coef, *_ = np.linalg.lstsq(A, R, rcond=None)
        resid = R - A @ coef
        scale = max(np.max(np.abs(out.noise)), 1e-300)
        vals = {"kB": KB, "T": Tk, "Fn": 10 ** (Fn / 10), "B": fs / 2, "R": RL, "e": QE, "r": r_, "idark": idark,
                "P": float(np.sum(np.mean(np.abs(np.atleast_2d(x.signal)) ** 2, axis=-1)) + (np.sum(np.mean(np.abs(np.atleast_2d(x.noise)) ** 2, axis=-1)) if noisy else 0.0))}
        expect = {"thermal": evalmono(monos["thermal_A2"], vals),
                  "shot": evalmono(monos["shot_signal_A2"], vals) + evalmono(monos["shot_dark_A2"], vals)}
        gauss = []
        for a in coef[:-1]:
            var = (a / RL) ** 2
            if var < 1e-12 * min(expect.values()):
                continue                     # a draw that does not reach the output
            term = min(expect, key=lambda k: abs(math.log(var / expect[k])))
            gauss.append({"term": term, "var_ppm": int(min(10 ** 9, abs(var / expect[term] - 1) * 1e6))})
        off = coef[-1]
        want_off = idark * RL
        offset_ppm = int(min(10 ** 9, abs(off - want_off) / max(abs(want_off), scale * 1e-3, 1e-30) * 1e6))
        events.append({"kind": "call", "sel": sel, "len_ok": True, "gauss": gauss, "remainder_ppt": int(min(10 ** 9, np.max(np.abs(resid)) / scale * 1e12)),
                       "offset_ppm": offset_ppm})
        meta.append(("call", sel, npol, noisy))
        ctx.case(("call", sel, npol, noisy, it % 3, idark > 0, Fn > 0, dark, intfield), {"PD": {"include_noise": shown, "r": r_, "T": Tk, "R_load": RL, "BW": BW, "i_dark": idark, "Fn": Fn, "n": n, "npol": npol}})
    # ------------------------------------------------------------------ laws
    for it in range(300 if T else 24):
        setgv(it)
        fs = gv.fs
        n = rnd.choice([64, 65, 300, 1024])
        npol = 1 + it % 2
        rs = np.random.RandomState(500 + it)
        s = (rs.randn(npol, n) + 1j * rs.randn(npol, n)) * 1e-2 + 0.01
        x = optical_signal(s if npol == 2 else s[0])
        r_, RL, BW = rnd.choice([1.0, 0.6]), rnd.choice([50.0, 200.0]), rnd.uniform(0.05, 0.45) * fs
        kw = dict(include_noise="ase-only", i_dark=0.0)
        with deadline(120):
            base = PD(x, BW, r_, 300.0, RL, **kw).signal
            # CW level on a lattice amplitude (3+4j)*1e-2: |E|^2 = 25e-4 per polarisation
            cw = optical_signal(np.full((npol, n), (3 + 4j) * 1e-2) if npol == 2 else np.full(n, (3 + 4j) * 1e-2))
            law("CW-level=r*P*Rload", PD(cw, BW, r_, 300.0, RL, **kw).signal, np.full(n, r_ * 25e-4 * npol * RL))
            # a narrow (monitor) photodiode: BW/fs = 1e-3, 3e-4 - the DC gain of the output filter must still be one
            law("CW-level=r*P*Rload", PD(cw, [1e-3, 3e-4][it % 2] * fs, r_, 300.0, RL, **kw).signal, np.full(n, r_ * 25e-4 * npol * RL))
            law("noise-free-selection-has-only-dark-offset", PD(cw, BW, r_, 300.0, RL, include_noise="ase-only", i_dark=2e-6).noise, np.full(n, 2e-6 * RL))
            ph = np.exp(1j * rs.uniform(0, 6.28, n))
            law("phase-rotation-invariant", PD(optical_signal(x.signal * ph), BW, r_, 300.0, RL, **kw).signal + 1, base + 1)
            law("phase-rotation-invariant", PD(optical_signal(x.signal * 1j), BW, r_, 300.0, RL, **kw).signal + 1, base + 1)
            if npol == 2:
                th, ph2 = rs.uniform(0, 6.28), rs.uniform(0, 6.28)
                for U in (np.array([[3, 4], [-4, 3]]) / 5, np.array([[math.cos(th), math.sin(th) * np.exp(1j * ph2)], [-math.sin(th) * np.exp(-1j * ph2), math.cos(th)]])):
                    law("polarisation-unitary-invariant", PD(optical_signal(U @ x.signal), BW, r_, 300.0, RL, **kw).signal + 1, base + 1)
            law("linear-in-r", PD(x, BW, r_ / 2, 300.0, RL, **kw).signal * 2 + 1, base + 1)
            law("linear-in-Rload", PD(x, BW, r_, 300.0, RL * 3, **kw).signal / 3 + 1, base + 1)
            law("quadratic-in-amplitude", PD(optical_signal(x.signal * 3), BW, r_, 300.0, RL, **kw).signal / 9 + 1, base + 1)
            nzv = (rs.randn(npol, n) + 1j * rs.randn(npol, n)) * 1e-3
            xn = optical_signal(x.signal, nzv if npol == 2 else nzv[0])
            lhs = PD(xn, BW, r_, 300.0, RL, include_noise="ase-only", i_dark=1e-7).noise
            rhs = PD(optical_signal(xn.signal + xn.noise), BW, r_, 300.0, RL, **kw).signal - base + 1e-7 * RL
            law("ase-only-noise=PD(total)-PD(signal)+dark", lhs + 1, rhs + 1)
        ctx.case(("laws", npol, n > 100, it % 3))
    # ------------------------------------------------------------------ history independence (same BW under another sampling rate before)
    for it, (cfgA, cfgB) in enumerate([(dict(sps=16, R=2.5e9), dict(sps=8, R=10e9)), (dict(sps=8, R=10e9), dict(sps=16, R=1e9)), (dict(sps=4, R=10e9), dict(sps=16, R=10e9))]):
        rs = np.random.RandomState(900 + it)
        f = (rs.randn(200) + 1j * rs.randn(200)) * 1e-2
        BW = 3e9
        with warnings.catch_warnings():
            warnings.simplefilter("ignore")
            gv(**cfgA); np.random.seed(4); PD(optical_signal(f), BW)
            gv(**cfgB); np.random.seed(4); after = PD(optical_signal(f), BW)
            with fresh_repo() as lib:
                lib["typing"].gv(**cfgB); np.random.seed(4)
                fresh = lib["devices"].PD(lib["typing"].optical_signal(f), BW)
        law("result-independent-of-call-history", after.signal + 1, fresh.signal + 1)
        law("result-independent-of-call-history", after.noise * 1e3 + 1, fresh.noise * 1e3 + 1)
        ctx.case(("history", it))
    # ------------------------------------------------------------------ verdicts
    setgv(0)
    good = optical_signal(np.ones(100) * 0.01)
    faults = {"none": dict(), "input-electrical": dict(input=electrical_signal(np.ones(100))), "input-ndarray": dict(input=np.ones(100)),
              "r-str": dict(r="0.5"), "r-list": dict(r=[0.5]), "T-str": dict(T="300"), "Rload-str": dict(R_load="50"), "include-noise-int": dict(include_noise=3),
              "r-zero": dict(r=0), "r-negative": dict(r=-0.1), "r-above-1": dict(r=1.5), "T-negative": dict(T=-1.0), "Rload-negative": dict(R_load=-50.0),
              "include-noise-unknown": dict(include_noise="thermal+shot"), "include-noise-empty": dict(include_noise=""),
              "T-zero": dict(T=0.0), "T-zero-int": dict(T=0), "r-one": dict(r=1), "idark-zero": dict(i_dark=0), "selection-mixed-case": dict(include_noise="Thermal-Shot")}
    for name, kw in faults.items():
        args = dict(input=good, BW=5e9)
        args.update(kw)
        try:
            with deadline(60):
                PD(**args)
            raised = "ok"
        except TypeError:
            raised = "TypeError"
        except ValueError:
            raised = "ValueError"
        except Exception as e:
            raised = type(e).__name__
        events.append({"kind": "verdict", "fault": name, "raised": raised})
        meta.append(("verdict", name))
        ctx.case(("verdict", name), None, nontrivial=False)
    gv.clean()
    ctx.assumptions.append("thermal/shot draws are observed by interposing numpy.random.normal/randn in the harness and attributed by least squares through the "
                           "library's own LPF (linear, C11); beating terms enter through the equation PD(total).signal - PD(signal).signal")
    for idx, clause in ctx.validate("DetectorTrace", events, note="PD calls and laws"):
        m = meta[idx - 1]
        ctx.violation(f"{m[0]}:{m[1]}:{clause}", f"{m} rejected: {events[idx - 1]}", {"event": events[idx - 1], "case": m})
