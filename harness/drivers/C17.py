"""C17 - eye estimator recovers the levels of a clean two-level signal in any unit.
Spec: Eye.tla (sampling-index arithmetic, model-checked), EyeTrace.tla (the statement's bands and equivariance on recorded estimates)."""
import random, math, warnings
import numpy as np
from ..core import deadline, import_repo, protect

LEVEL = "exploration"


def run(ctx):
    ctx.rule = ("case = one GET_EYE run on a synthesised two-level NRZ waveform (or a scaled/offset twin under the same numpy seed) judged by TLC; "
                "class = (sps, pattern kind, decade of b-a, sign of a, noise class, scale/offset class)")
    T = ctx.thorough
    ctx.tlc("Eye", "SPECIFICATION Spec\nINVARIANT CentreQuarter\nINVARIANT NearCentre\nCHECK_DEADLOCK FALSE\nCONSTANTS SpsVals = {8,16,32}\n Rs = {128}\n",
            note="sampling-index arithmetic for every grid position of t_opt")
    # the allowance of EyeTrace's clause sampling-index-at-the-optimum-instant, checked against the design for every grid position, sps and eye grid
    grids = "CONSTANTS SpsVals = {8,9,10,12,15,16,20,32,33,40,64}\n Rs = {8,9,10,12,16,20,24,30,31,32,33,40,64,100,128,512}\n"
    ctx.tlc("Eye", "SPECIFICATION Spec\nINVARIANT IndexInRange\nINVARIANT IndexAtOptimum\nCHECK_DEADLOCK FALSE\n" + grids,
            note="reported index = phase of the optimum instant, within the clause's allowance, for every (sps, eye grid, position)")
    neg = ctx.tlc("Eye", "SPECIFICATION Spec\nINVARIANT TooTight\nCHECK_DEADLOCK FALSE\n" + grids, expect_ok=False, count=False,
                  note="negative control: one sample of allowance less is violated by the design")
    if not neg.violated:
        from ..core import MachineryError
        raise MachineryError("negative control of Eye (TooTight) did not fail: the index model is vacuous")
    import_repo()
    from opticomlib.devices import GET_EYE, LPF, PRBS
    from opticomlib.typing import gv, electrical_signal
    rnd = random.Random(ctx.seed)
    events, meta = [], []
    warnings.filterwarnings("ignore")

    def synth(sps, kind, nslots, seed, sigma):
        gv(sps=sps, R=1e9)
        rs = np.random.RandomState(seed)
        if kind in ("sparse-even", "sparse-odd", "sparse-mixed", "dense-even", "dense-mixed"):
            # strongly unbalanced data: the rarer symbol in about 3 % of the slots, in even-numbered / odd-numbered / arbitrary slots
            bits = np.zeros(nslots, dtype=int)
            step = 32 if not kind.endswith("mixed") else 31
            bits[np.arange(10 + (1 if kind.endswith("odd") else 0), nslots, step)] = 1
            if kind.startswith("dense"):
                bits = 1 - bits
        else:
            bits = rs.randint(0, 2, nslots) if kind == "random" else np.resize(PRBS(7, 127, seed=seed % 126 + 1).data, nslots)
        if bits.min() == bits.max():
            bits[0] = 1 - bits[0]
        nrz = np.kron(bits, np.ones(sps)).astype(float)
        if BAND[0] == "boxcar":
            base = np.convolve(nrz, np.ones(sps // 2) / (sps // 2), "same")          # a half-slot moving average: no inter-symbol interference at the eye centre
        elif BAND[0] == "rc":
            # a causal one-pole response (time constant 0.15 slot): asymmetric pulses, the eye opens late in the slot
            a_, acc, base = 1 - math.exp(-1 / (0.15 * sps)), nrz[0], np.empty_like(nrz)
            for i_, v_ in enumerate(nrz):
                acc += a_ * (v_ - acc)
                base[i_] = acc
        else:
            base = LPF(nrz, 0.75e9).signal
        return base, rs.randn(base.size) * sigma

    RESAMP = [128]
    BAND = ["bessel"]

    NOISEREC = [None]

    def estimate(y, seed):
        np.random.seed(seed)
        with deadline(300):
            if NOISEREC[0] is not None:      # the waveform given as a signal object with a separate noise record
                return GET_EYE(protect(electrical_signal(y - NOISEREC[0], NOISEREC[0])), sps_resamp=RESAMP[0])
            return GET_EYE(protect(electrical_signal(y)), sps_resamp=RESAMP[0])

    def fields(e):
        return [e.mu0, e.mu1, e.s0, e.s1, e.threshold, e.t_left, e.t_right, e.t_opt, e.i]

    def finite(e):
        return all(v is not None and np.isfinite(v) for v in fields(e))

    def ioff(e, sps):
        # the sampling index is the index of the optimum instant: circular distance (milli-samples, modulo one slot) between `i` and the
        # sample that sits at t_opt once the centring roll of the eye window (sps/2 - 1 samples) is undone - the conventions in use
        # (truncate / round; -sps/2 or +sps/2) differ by at most three samples (Eye.tla, IndexAtOptimum), a wrong mapping back from the eye grid by a fraction of a slot
        try:
            ref = (float(e.t_opt) + 0.5) * sps - 0.5
            d = ((float(e.i) - ref + sps / 2.0) % sps) - sps / 2.0
            return int(round(d * 1000)) if np.isfinite(d) else 10 ** 9
        except Exception:
            return 10 ** 9

    def ppm(x):
        return int(max(-2 * 10 ** 9, min(2 * 10 ** 9, round(x * 1e6))))

    pairs = [(0.0, 1.0), (-1.0, 0.0), (0.2, 1.2), (0.0, 1e-3), (-0.9, 0.1), (1e-3, 2e-3), (-50.0, 50.0), (0.0, 100.0), (-100.0, 5.0), (3.0, 10.0), (-0.5, 0.5), (2e-3, 4.5e-2), (10.0, 12.0), (-2e-3, 0.0)]
    nrun = 140 if T else 21
    for it in range(nrun):
        sps = [16, 8, 32][it % 3]
        kind = "random" if it % 2 else "prbs"
        nslots = rnd.choice([64, 128, 256])
        if it % 7 == 5:
            kind, nslots = ["sparse-even", "dense-mixed", "sparse-odd", "dense-even", "sparse-mixed"][(it // 7) % 5], 512
        # interpolation factor of the eye: the default of the tests, none, and factors that are not multiples of sps
        RESAMP[0] = [128, 128, None, 24, 30, 64, 40, 2 * sps, 100][(it - it // 3) % 9] if it % 3 != 2 else 128
        if (RESAMP[0] or sps) < 16:
            RESAMP[0] = 24          # the timing bands (10 % of a slot) presuppose an eye time grid of at least 16 points per slot
        if it % 3 == 2 and it % 2 == 1:
            RESAMP[0] = [16, 24][(it // 6) % 2]      # sps = 32 seen through a coarser eye grid
        BAND[0] = "rc" if it % 4 == 1 else "bessel"
        sigma = rnd.choice([0.005, 0.02, 0.05])
        a, b = pairs[it % len(pairs)]
        base, nz = synth(sps, kind, nslots, 100 + it, sigma)
        d = b - a
        y = a + d * base + d * nz
        NOISEREC[0] = d * nz if it % 4 == 2 else None
        e = estimate(y, it)
        if it % 4 == 2:
            e_again = estimate(y, it)          # the same object's samples estimated twice: identical (nothing was written into the caller's arrays)
            if finite(e) and (not finite(e_again) or abs(e_again.s0 - e.s0) > 1e-12 * d or abs(e_again.mu1 - e.mu1) > 1e-12 * d):
                ctx.violation("est:repeated-call-differs", "GET_EYE on the same waveform under the same numpy seed gave another estimate the second time", {"levels": [a, b], "sps": sps})
        NOISEREC[0] = None
        ok = finite(e)
        if ok:
            events.append({"kind": "est", "finite": True, "mu0e": ppm((e.mu0 - a) / d), "mu1e": ppm((e.mu1 - b) / d), "s0": ppm(e.s0 / d), "s1": ppm(e.s1 / d),
                           "sigma": ppm(sigma), "thr_in": bool(e.mu0 < e.threshold < e.mu1), "tdist_ppm": ppm(e.t_right - e.t_left),
                           "topt_mid_ppm": ppm(e.t_opt - (e.t_left + e.t_right) / 2), "i": int(e.i), "i_int": bool(isinstance(e.i, (int, np.integer))), "i_off": ioff(e, sps), "sps": sps, "grid": int(RESAMP[0] or sps), "populated": kind in ("random", "prbs")})
        else:
            events.append({"kind": "est", "finite": False})
        meta.append(("est", (a, b), sps, sigma))
        ctx.case(("est", sps, kind, int(math.floor(math.log10(d))), a < 0, sigma, RESAMP[0], BAND[0]), {"levels": [a, b], "sps": sps, "nslots": nslots, "sigma_rel": sigma, "pattern": kind})
        if it % 3 != 2 or not ok:
            continue
        # equivariance twins under the same numpy seed
        for alpha, beta in ((1e-3, 0.0), (7.0, 1.5 * d), (1000.0, -3.0 * d), (rnd.uniform(0.01, 100), rnd.uniform(-5, 5) * d), (1.0, 1e6 * d), (0.5, -1e4 * d)):
            e2 = estimate(alpha * y + beta, it)
            if not finite(e2):
                events.append({"kind": "equiv", "finite": False})
            else:
                back = lambda v: (v - beta) / alpha
                events.append({"kind": "equiv", "finite": True, "dmu0": ppm((back(e2.mu0) - e.mu0) / d), "dmu1": ppm((back(e2.mu1) - e.mu1) / d),
                               "ds0": ppm((e2.s0 / alpha - e.s0) / d), "ds1": ppm((e2.s1 / alpha - e.s1) / d), "dthr": ppm((back(e2.threshold) - e.threshold) / d),
                               "dtl": ppm(e2.t_left - e.t_left), "dtr": ppm(e2.t_right - e.t_right), "dto": ppm(e2.t_opt - e.t_opt), "same_i": bool(e2.i == e.i)})
            meta.append(("equiv", (a, b), alpha, beta / d))
            ctx.case(("equiv", sps, int(math.floor(math.log10(alpha))), beta != 0))
    # noise-free waveforms (sigma = 0 is within "sigma <= 5 %"): every estimate still finite, the threshold strictly between the levels
    for it in range(24 if T else 8):
        sps = [16, 32][it % 2]
        BAND[0] = ["boxcar", "bessel", "rc", "boxcar"][it % 4]
        RESAMP[0] = [None, 128, None, 64][(it // 2) % 4]
        a, b = [(0.0, 1.0), (-1.0, 1.0), (0.2, 1.2), (-7.5, -4.5)][(it // 3) % 4]
        base, nz = synth(sps, "random", 256, 1300 + it, 0.0)
        d = b - a
        e = estimate(a + d * base, 80 + it)
        if finite(e):
            events.append({"kind": "est", "finite": True, "mu0e": ppm((e.mu0 - a) / d), "mu1e": ppm((e.mu1 - b) / d), "s0": ppm(e.s0 / d), "s1": ppm(e.s1 / d),
                           "sigma": 0, "thr_in": bool(e.mu0 < e.threshold < e.mu1), "tdist_ppm": ppm(e.t_right - e.t_left),
                           "topt_mid_ppm": ppm(e.t_opt - (e.t_left + e.t_right) / 2), "i": int(e.i), "i_int": bool(isinstance(e.i, (int, np.integer))), "i_off": ioff(e, sps), "sps": sps,
                           "grid": int(RESAMP[0] or sps), "populated": True})
        else:
            events.append({"kind": "est", "finite": False})
        meta.append(("est", (a, b), sps, "noise-free-" + BAND[0]))
        ctx.case(("est-noise-free", sps, BAND[0], RESAMP[0], a < 0))
    # few samples per slot without interpolation (odd numbers included), and records that are not a whole number of slot pairs: the level,
    # spread, threshold and index clauses (the timing bands presuppose a finer grid)
    for it in range(30 if T else 10):
        sps = [5, 5, 7, 9, 11, 6, 16, 16, 32, 3][it % 10]
        BAND[0] = ["bessel", "rc"][it % 2]
        RESAMP[0] = None if sps < 16 else [None, 64][it % 2]
        a, b = [(0.0, 1.0), (-1.0, 1.0), (0.2, 1.2)][it % 3]
        base, nz = synth(sps, "random", 256, 1500 + it, 0.02)
        extra = [0, 0, 0, 0, 3, 7, 9, 24, 8, 0][it % 10]           # stray samples after the last whole pair of slots
        if extra:
            base, nz = np.concatenate([base, base[:extra]]), np.concatenate([nz, nz[:extra]])
        d = b - a
        e = estimate(a + d * base + d * nz, 90 + it)
        if finite(e):
            events.append({"kind": "est", "finite": True, "mu0e": ppm((e.mu0 - a) / d), "mu1e": ppm((e.mu1 - b) / d), "s0": ppm(e.s0 / d), "s1": ppm(e.s1 / d),
                           "sigma": ppm(0.02), "thr_in": bool(e.mu0 < e.threshold < e.mu1), "tdist_ppm": ppm(e.t_right - e.t_left),
                           "topt_mid_ppm": ppm(e.t_opt - (e.t_left + e.t_right) / 2), "i": int(e.i), "i_int": bool(isinstance(e.i, (int, np.integer))), "i_off": ioff(e, sps), "sps": sps,
                           "grid": int(RESAMP[0] or sps), "populated": bool((RESAMP[0] or sps) >= 16)})
        else:
            events.append({"kind": "est", "finite": False})
        meta.append(("est", (a, b), sps, f"coarse-or-ragged:{extra}"))
        ctx.case(("est-coarse", sps, BAND[0], extra > 0))
    RESAMP[0], BAND[0] = 128, "bessel"
    # two records with the same number of samples but different samples per slot, one after the other (and back)
    for it, seq in enumerate([[(16, 256), (32, 128), (16, 256)], [(16, 256), (32, 128), (16, 256)], [(8, 512), (32, 128), (16, 256)]] if T else [[(16, 256), (32, 128), (16, 256)], [(16, 256), (32, 128), (16, 256)]]):
        RESAMP[0] = None if it == 1 else 128         # with and without interpolation of the eye
        for j, (sps, nslots) in enumerate(seq):
            a, b, sigma = 0.0, 1.0, 0.02
            base, nz = synth(sps, "random", nslots, 700 + it, sigma)
            d = b - a
            e = estimate(a + d * base + d * nz, 60 + j)
            if finite(e):
                events.append({"kind": "est", "finite": True, "mu0e": ppm((e.mu0 - a) / d), "mu1e": ppm((e.mu1 - b) / d), "s0": ppm(e.s0 / d), "s1": ppm(e.s1 / d),
                               "sigma": ppm(sigma), "thr_in": bool(e.mu0 < e.threshold < e.mu1), "tdist_ppm": ppm(e.t_right - e.t_left),
                               "topt_mid_ppm": ppm(e.t_opt - (e.t_left + e.t_right) / 2), "i": int(e.i), "i_int": bool(isinstance(e.i, (int, np.integer))), "i_off": ioff(e, sps), "sps": sps, "grid": int(RESAMP[0] or sps), "populated": True})
            else:
                events.append({"kind": "est", "finite": False})
            meta.append(("est", (a, b), sps, "same-size-sequence"))
            ctx.case(("est-sequence", it, j))
    RESAMP[0] = 128
    # one record longer than the default eye window (4096 slots): the estimate must still be that of a clean eye
    for it in range(2 if T else 1):
        a, b, sigma, sps = [(0.0, 1.0), (-2.0, 3.0)][it], 0.0, 0.01, 8
        a, b = [(0.0, 1.0), (-2.0, 3.0)][it]
        base, nz = synth(sps, "random", 4600 + 100 * it, 900 + it, sigma)
        d = b - a
        e = estimate(a + d * base + d * nz, 50 + it)
        if finite(e):
            events.append({"kind": "est", "finite": True, "mu0e": ppm((e.mu0 - a) / d), "mu1e": ppm((e.mu1 - b) / d), "s0": ppm(e.s0 / d), "s1": ppm(e.s1 / d),
                           "sigma": ppm(sigma), "thr_in": bool(e.mu0 < e.threshold < e.mu1), "tdist_ppm": ppm(e.t_right - e.t_left),
                           "topt_mid_ppm": ppm(e.t_opt - (e.t_left + e.t_right) / 2), "i": int(e.i), "i_int": bool(isinstance(e.i, (int, np.integer))), "i_off": ioff(e, sps), "sps": sps, "grid": int(RESAMP[0] or sps), "populated": True})
        else:
            events.append({"kind": "est", "finite": False})
        meta.append(("est", (a, b), sps, "long-record"))
        ctx.case(("est-long", it))
    # eyes that are not centred in the window (the waveform delayed by a fraction of a slot) in very small and very large units: "any alpha > 0"
    for it, (sps, delay16, alphas) in enumerate([(16, 5, (4e-9, 1e-12, 1e6)), (16, 12, (1e-9, 3e-15, 1e9)), (32, 3, (2.5e-10, 1e-6, 1e12)), (8, 6, (7e-9, 1e-13, 1e3))][:4 if T else 3]):
        BAND[0], RESAMP[0] = "bessel", 128
        base, nz = synth(sps, "random", 256, 2500 + it, 0.02)
        y = np.roll(0.1 + base + nz, delay16 * sps // 16)
        e = estimate(y, 300 + it)
        if not finite(e):
            events.append({"kind": "est", "finite": False})
            meta.append(("est", (0.1, 1.1), sps, "delayed"))
            continue
        for alpha in alphas:
            e2 = estimate(alpha * y, 300 + it)
            if not finite(e2):
                events.append({"kind": "equiv", "finite": False})
            else:
                events.append({"kind": "equiv", "finite": True, "dmu0": ppm(e2.mu0 / alpha - e.mu0), "dmu1": ppm(e2.mu1 / alpha - e.mu1),
                               "ds0": ppm(e2.s0 / alpha - e.s0), "ds1": ppm(e2.s1 / alpha - e.s1), "dthr": ppm(e2.threshold / alpha - e.threshold),
                               "dtl": ppm(e2.t_left - e.t_left), "dtr": ppm(e2.t_right - e.t_right), "dto": ppm(e2.t_opt - e.t_opt), "same_i": bool(e2.i == e.i)})
            meta.append(("equiv", (0.1, 1.1), alpha, "delayed %d/16" % delay16))
            ctx.case(("equiv-delayed", sps, delay16, int(math.floor(math.log10(alpha)))))
    gv.clean()
    ctx.assumptions.append("KMeans/KDE are not modelled: the statement's bands and the equivariance are monitored on recorded runs under fixed numpy seeds")
    for idx, clause in ctx.validate("EyeTrace", events, note="eye estimates"):
        m = meta[idx - 1]
        ctx.violation(f"{m[0]}:{clause}", f"{m} rejected: {events[idx - 1]}", {"event": events[idx - 1], "case": m})
