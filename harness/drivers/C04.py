"""C04 - PRBS emits the maximal-length sequence of its ITU polynomial and can be resumed.

Spec: LFSR.tla (operators), LFSRCycle.tla (exhaustive cycle walk), LFSRResume.tla (resume + recurrence),
GF2.tla/GF2Facts.tla (order of the companion matrix; PRBS31), LFSRTrace.tla (trace validation).
"""
import random, warnings
import numpy as np
from ..core import deadline, import_repo, MachineryError

LEVEL = "model_checking"
TAPS = {7: 6, 9: 5, 11: 9, 15: 14, 20: 3, 23: 18, 31: 28}   # only used to *configure* TLC runs (N,T constants);
# the spec's own Taps table is what the trace validation uses, and LFSRCycle/GF2 are run with the spec table's
# values - the driver cross-checks this dict against the TLC-evaluated table below.


def bits_of(v, n=None):
    v = int(v)
    out = []
    while v:
        out.append(v & 1)
        v >>= 1
    if n is not None:
        out = (out + [0] * n)[:n]
    return out


def run(ctx):
    ctx.rule = ("cases = PRBS calls replayed/validated; class = (event kind, order, seed class, length class); "
                "non-trivial = the call returned a sequence (validation errors are counted separately as verdict cases)")
    thorough = ctx.thorough
    # ------------------------------------------------------------------ 1. model checking
    facts = ctx.tlc_eval("GF2Facts", note="factorisations of 2^n-1 (TLC evaluates and checks them)")
    jobs = []
    cyc_orders = [7, 9, 11, 15, 20] + ([23] if thorough else [])
    for n in cyc_orders:
        inv = "INVARIANT StepAgree\n" if n <= 15 else ""
        live = "SPECIFICATION CycleSpec\nPROPERTY Returns\n" if n <= 11 else "INIT CycleInit\nNEXT CycleNext\n"
        cfg = (live + "INVARIANT NeverZero\nINVARIANT WithinPeriod\nINVARIANT ReturnsOnlyAtPeriod\n" + inv +
               f"CHECK_DEADLOCK FALSE\nCONSTANTS N = {n}\n T = {TAPS[n]}\n")
        jobs.append(dict(module="LFSRCycle", cfg=cfg, workers=1, timeout=3000, note=f"cycle order {n}"))
    res_cfg = "INIT ResumeInit\nNEXT ResumeNext\nINVARIANT ResumeOK\nINVARIANT RecurrenceOK\nCHECK_DEADLOCK FALSE\n"
    jobs.append(dict(module="LFSRResume", cfg=res_cfg + "CONSTANTS N = 7\n T = 6\n MaxLen = 9\n", workers=2,
                     note="resume/recurrence order 7"))
    if thorough:
        jobs.append(dict(module="LFSRResume", cfg=res_cfg + "CONSTANTS N = 9\n T = 5\n MaxLen = 12\n", workers=4,
                         note="resume/recurrence order 9", timeout=3000))
    gf_cfg = "INIT Init\nNEXT Next\nINVARIANT Result\nCHECK_DEADLOCK FALSE\n"
    for n, t in TAPS.items():
        f = facts[str(n)]
        jobs.append(dict(module="GF2", cfg=gf_cfg + f"CONSTANTS N = {n}\n T = {t}\n E = {f['mersenne']}\n ExpectId = TRUE\n",
                         workers=1, note=f"M^(2^{n}-1) = I"))
        for cf in f["cofactors"]:
            if cf != 1:
                jobs.append(dict(module="GF2", cfg=gf_cfg + f"CONSTANTS N = {n}\n T = {t}\n E = {cf}\n ExpectId = FALSE\n",
                                 workers=1, note=f"M^{cf} # I (order {n})"))
    # non-vacuity: non-primitive trinomials must fail the same test
    for n, t in [(7, 5), (8, 6), (8, 4), (31, 27), (31, 30)]:
        e = 2 ** n - 1
        jobs.append(dict(module="GF2", cfg=gf_cfg + f"CONSTANTS N = {n}\n T = {t}\n E = {e}\n ExpectId = FALSE\n",
                         workers=1, note=f"negative control x^{n}+x^{t}+1 not primitive"))
    results = ctx.tlc_many(jobs, parallel=12)
    for n, r in zip(cyc_orders, results):
        if r.distinct != 2 ** n:      # 2^n-1 cycle states + the closing revisit of Start with k = period
            raise MachineryError(f"cycle model order {n}: {r.distinct} states, expected {2**n}")
    if thorough:
        lem = ctx.tlc_eval("LFSRLemma", note="lemma: cycle through all-ones has length 2^n-1 <=> matrix order criterion, every trinomial n <= 11", timeout=3000)
        mx = {tuple(p) for p in lem["maximal"]}
        if not {(7, 6), (9, 5), (11, 9)} <= mx or lem["checked"] != 55:
            raise MachineryError(f"LFSRLemma: unexpected result {lem}")
        ctx.extra["lemma_trinomials_checked"] = lem["checked"]
    ctx.exhaustive = True
    ctx.assumptions += [
        "orders 7..20 (23 in thorough): every state of the generator cycle enumerated by TLC; PRBS31: primitivity via "
        "ord(M)=2^31-1 (TLC: M^(2^31-1)=I, M#I, 2^31-1 prime) instead of enumeration",
        "ints are converted to bit lists by the harness (generic representation change)",
    ]
    # ------------------------------------------------------------------ 2. implementation
    import_repo()
    from opticomlib.devices import PRBS
    rnd = random.Random(ctx.seed)

    kept = []            # (sequence object as returned, its bits as first read): re-read later - results must not change when further calls are made
    raw_state = {}       # int value of a returned state -> the object PRBS returned (passed back as it is when the stream is resumed)
    ncall = [0]

    def call(order, length, seed, timeout=60):
        ncall[0] += 1
        if isinstance(seed, int) and seed in raw_state and ncall[0] % 2:
            seed = raw_state[seed]                     # resume with the very object that was returned (a numpy integer in this library)
        elif isinstance(seed, int) and ncall[0] % 7 == 3 and abs(seed) < 2 ** 62:
            seed = np.int64(seed)                      # seeds held in numpy integers
        with warnings.catch_warnings(record=True) as w:
            warnings.simplefilter("always")
            with deadline(timeout):
                out, st = PRBS(order, length, seed, True)
        bits_ = [int(b) for b in out.data]
        if len(kept) < 400 and len(bits_) <= 4096:
            kept.append((out, bits_))
        if len(raw_state) < 5000:
            raw_state[int(st)] = st
        return bits_, int(st), any(issubclass(x.category, UserWarning) for x in w)

    events, meta = [], []

    def add(ev, m):
        events.append(ev)
        meta.append(m)

    # 2a. exhaustive one-clock replay, integer form
    step_orders = [7, 9, 11, 15] + ([20] if thorough else [])
    for n in step_orders:
        for s in range(1, 2 ** n):
            out, s2, _ = call(n, 1, s)
            add({"kind": "step", "order": n, "s": s, "out": out[0], "s2": s2}, ("step", n, s))
            ctx.case(("step", n, "all-states"), {"PRBS": [n, 1, s], "->": [out, s2]} if s == 5 else None)
    # 2b. random calls incl. resumed chains, all orders, odd seeds
    ncalls = 20000 if thorough else 1500
    chains = []
    while len(events) - sum(2 ** n - 1 for n in step_orders) < ncalls:
        n = rnd.choice(list(TAPS))
        kind = rnd.choice(["none", "zero", "mult", "neg", "huge", "small", "rand", "rand"])
        if kind == "none":
            seed = None
        elif kind == "zero":
            seed = 0
        elif kind == "mult":
            seed = rnd.choice([1, -1, 3, 1 << 20]) * (1 << n)
        elif kind == "neg":
            seed = -rnd.randrange(1, 1 << (n + 3))
        elif kind == "huge":
            seed = rnd.randrange(1 << 40, 1 << 90) * rnd.choice([1, -1])
        elif kind == "small":
            seed = rnd.randrange(1, 8)
        else:
            seed = rnd.randrange(1, 1 << n)
        nsplit = rnd.choice([1, 1, 2, 3, 5])
        lens = [rnd.choice([1, 2, n - 1, n, n + 1, rnd.randrange(1, 300)]) for _ in range(nsplit)]
        lens = [max(1, x) for x in lens]
        cur, first, outs = seed, True, []
        for L in lens:
            out, st, warned = call(n, L, cur)
            add({"kind": "call", "order": n, "given": cur is not None, "neg": (cur or 0) < 0,
                 "mag": bits_of(abs(cur or 0)), "len": L, "out": out, "state": bits_of(st, n), "warned": warned},
                ("call", n, cur, L))
            ctx.case(("call", n, kind if first else "resumed", "len<n" if L < n else "len>=n"),
                     {"PRBS": [n, L, cur], "->": ["".join(map(str, out[:40])), st, warned]})
            outs += out
            cur, first = st, False
        if nsplit > 1:   # binding E: LFSRResume proves the two programs equal
            one, st1, _ = call(n, sum(lens), seed)
            if one != outs or st1 != cur:
                ctx.violation(f"resume:order={n}", f"PRBS({n},{sum(lens)},seed={seed}) differs from resumed calls {lens}",
                              {"order": n, "seed": seed, "lens": lens})
            ctx.case(("resume-eq", n, nsplit))
    # 2b'. long single calls (block sizes 2^12, 2^13, ... and their neighbours) against the same stream generated in short resumed
    #      calls, each of which is validated by TLC
    for n, L in [(7, 4096), (9, 8192), (15, 4097), (23, 12288), (31, 4095), (11, 65536 if thorough else 16384)]:
        seed = rnd.randrange(1, 1 << n)
        one, st1, _ = call(n, L, seed)
        cur, outs = seed, []
        while len(outs) < L:
            c = min(251, L - len(outs))
            out, st, warned = call(n, c, cur)
            if len(outs) < 251 * 8 or L - len(outs) <= 251 * 4:
                add({"kind": "call", "order": n, "given": True, "neg": False, "mag": bits_of(abs(cur)), "len": c, "out": out, "state": bits_of(st, n), "warned": warned},
                    ("call", n, cur, c))
            outs += out
            cur = st
        if one != outs or st1 != cur:
            bad_at = next((i for i, (a, b) in enumerate(zip(one, outs)) if a != b), min(len(one), len(outs)))
            ctx.violation(f"resume:order={n}:long", f"PRBS({n},{L},seed={seed}) differs from the stream generated 251 bits at a time (first difference at bit {bad_at})",
                          {"order": n, "seed": seed, "len": L})
        ctx.case(("resume-eq-long", n, L))
    # 2c. whole periods
    for n, seeds in [(7, [None, 1, 64, 77]), (9, [None, 1, 300]), (11, [None, 5]), (15, [None] + ([12345] if thorough else []))]:
        for seed in seeds:
            with deadline(120):
                out, st = PRBS(n, None, seed, True)
            add({"kind": "period", "order": n, "given": seed is not None, "neg": False, "mag": bits_of(seed or 0),
                 "out": [int(b) for b in out.data], "state": bits_of(int(st), n)}, ("period", n, seed))
            ctx.case(("period", n, "default" if seed is None else "seeded"), {"PRBS": [n, None, seed], "len": len(out.data)})
    # 2d. argument verdicts
    for order in [7, 31, 8, 0, 32, 16]:
        for lk, lv in [("none", None), ("int", 5), ("int", 0), ("int", -3), ("float", 5.0), ("str", "5"),
                       ]:   # bool lengths are outside the statement ("len must be a positive int")
            if lk == "none" and order in (31, 32):
                continue  # 2**32-1 bits would be allocated only after the order check; safe, but skip the big default
            try:
                with warnings.catch_warnings():
                    warnings.simplefilter("ignore")
                    with deadline(60):
                        PRBS(order, lv, 3)
                raised = "ok"
            except TypeError:
                raised = "TypeError"
            except ValueError:
                raised = "ValueError"
            except Exception as e:
                raised = type(e).__name__
            sign = 0 if lv is None or isinstance(lv, str) else (1 if lv > 0 else (0 if lv == 0 else -1))
            add({"kind": "verdict", "order": order, "lenKind": lk, "lenSign": sign, "raised": raised},
                ("verdict", order, lk, lv))
            ctx.case(("verdict", order in TAPS, lk, sign), None, nontrivial=False)
    # unsupported orders whose default length 2^order-1 is degenerate or huge: ValueError before anything is allocated
    for order in [-1, -7, 63, 64, 1000, 7.5, 33] + [o_ for o_ in range(0, 41) if o_ not in TAPS]:        # every unsupported integer up to 40
        for lv in (None, 5):
            for sd in (3, None):
                if isinstance(order, int) and 0 <= order <= 40 and (lv is None or sd is None):
                    continue                      # the sweep: explicit length and seed only
                try:
                    with warnings.catch_warnings():
                        warnings.simplefilter("ignore")
                        with deadline(60):
                            PRBS(order, lv, sd)
                    raised = "ok"
                except Exception as e:
                    raised = type(e).__name__
                add({"kind": "verdict", "order": int(order) if order == int(order) else 1000 + int(order * 10), "lenKind": "none" if lv is None else "int",
                     "lenSign": 0 if lv is None else 1, "raised": raised}, ("verdict", order, "none" if lv is None else "int", lv))
                ctx.case(("verdict-degenerate-order", order, lv is None, sd is None), None, nontrivial=False)
    # sequences handed out earlier still hold the bits they held when they were returned
    for obj_, bits_ in kept:
        if [int(b) for b in obj_.data] != bits_:
            ctx.violation("call:result-changed-by-later-calls", "a sequence returned by PRBS changed after further PRBS calls were made", {"bits_then": bits_[:64], "bits_now": [int(b) for b in obj_.data][:64]})
            break
    # ------------------------------------------------------------------ 3. TLC validates the recorded events
    bad = []
    B = 60000
    for i in range(0, len(events), B):
        for idx, clause in ctx.validate("LFSRTrace", events[i:i + B], note="PRBS events"):
            bad.append((i + idx - 1, clause))
    for idx, clause in bad[:20]:
        m = meta[idx]
        key = f"{m[0]}:order={m[1]}:{clause}"
        ctx.violation(key, f"event {m} rejected by LFSRTrace clause {clause}", {"event": events[idx], "clause": clause})
