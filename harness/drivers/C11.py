"""C11 - LPF/BPF are linear zero-phase filters with unit DC gain and -6 dB at cutoff.
Spec: Filter.tla (law set on a finite model, with a negative control), FilterTrace.tla (law residuals and tone contract)."""
import random, math, warnings
import numpy as np
from ..core import deadline, import_repo, MachineryError, fresh_repo, protect

LEVEL = "exploration"


def run(ctx):
    ctx.rule = ("case = one law residual or tone measurement on the real LPF/BPF judged by TLC; class = (filter, law/measurement, order n, "
                "cutoff class, layout, input kind, gv configuration); non-trivial = the filter returned an output")
    T = ctx.thorough
    base = "SPECIFICATION Spec\nCHECK_DEADLOCK FALSE\nCONSTANTS N = 4\n Vals = {0,1,2}\n Coefs = {1,2,3}\n"
    ctx.tlc("Filter", base + "INVARIANT SymSatisfiesLaws\nINVARIANT DelayIsLinear\n", note="law set satisfiable (zero-phase kernel)")
    neg = ctx.tlc("Filter", base + "INVARIANT DelayIsZeroPhase\n", expect_ok=False, count=False, note="negative control: a delay violates Reversal")
    if not neg.violated:
        raise MachineryError("Filter negative control did not fail")
    import_repo()
    from opticomlib.devices import LPF, BPF
    from opticomlib.typing import gv, optical_signal, electrical_signal
    rnd = random.Random(ctx.seed)
    events, meta = [], []

    def rel(a, b):
        a, b = np.asarray(a), np.asarray(b)
        if a.shape != b.shape or not np.all(np.isfinite(a)) or not np.all(np.isfinite(b)):
            return 10 ** 9
        return int(min(10 ** 9, float(np.max(np.abs(a - b)) / max(np.max(np.abs(b)), 1e-300)) * 1e12))

    def law(name, a, b, tol=10 ** 3):
        events.append({"kind": "law", "name": name, "ppt": rel(a, b), "tol_ppt": tol})
        meta.append(("law", name))

    def setgv(i):
        with warnings.catch_warnings():
            warnings.simplefilter("ignore")
            if i % 5 == 4:
                gv(R=[10e9, 4e9][(i // 5) % 2], fs=[25e9, 10e9][(i // 5) % 2])        # fs/R not an integer: the filters are designed on fs itself
            else:
                gv(sps=[16, 8, 32][i % 3], R=[1e9, 10e9, 2.5e9][i % 3])
        return gv.fs

    def mid(v):
        n = v.shape[-1]
        return v[..., n // 4: 3 * n // 4]

    for it in range(400 if T else 36):
        fs = setgv(it)
        n = rnd.choice([64, 257, 1024, 4096])
        order = 1 + it % 8
        BW = rnd.uniform(0.01, 0.45) * fs
        rs = np.random.RandomState(it)
        a_, b_ = rs.uniform(-3, 3), rs.uniform(-3, 3)
        # ---- LPF (real)
        x, y = protect(rs.randn(n), rs.randn(n))
        with deadline(120):
            Fx, Fy = LPF(x, BW, order).signal, LPF(y, BW, order).signal
            law("linear", LPF(a_ * x + b_ * y, BW, order).signal + 10, a_ * Fx + b_ * Fy + 10)
            e = protect(electrical_signal(x, y))
            Fe = LPF(e, BW, order)
            law("signal-and-noise-filtered-alike", Fe.noise + 10, Fy + 10)
            law("ndarray-and-container-agree", Fe.signal + 10, Fx + 10)
            law("constant-passes-unchanged", LPF(np.full(n, 2.5), BW, order).signal, np.full(n, 2.5), tol=10 ** 6)
            xi = np.round(x * 50)
            law("ndarray-and-container-agree", LPF(xi.astype(np.int64), BW, order).signal + 1000, LPF(xi, BW, order).signal + 1000)
            tiny = rnd.choice([1e-9, 1e-12, 1e6])
            law("linear", LPF(tiny * x, BW, order).signal / tiny + 10, Fx + 10)
            events.append({"kind": "shape", "same": bool(type(Fe) is electrical_signal and Fe.len() == n and Fe.noise.shape == (n,))})
            meta.append(("shape", "LPF"))
            FeH, _H = LPF(e, BW, order, retH=True)          # asking for the response as well changes nothing in the filtered object
            law("signal-and-noise-filtered-alike", FeH.noise + 10, Fy + 10)
            law("ndarray-and-container-agree", FeH.signal + 10, Fx + 10)
            if n >= 257 and BW / fs * n >= 8:        # "away from the record edges": the filter's response (about fs/BW samples) fits well inside the record
                p = np.exp(-((np.arange(n) - (n - 1) / 2) / (0.02 * n)) ** 2)
                r = LPF(p, BW, order).signal
                law("zero-delay-symmetric-pulse", r[::-1] + 1, r + 1, tol=10 ** 6)
        # ---- BPF (complex, 1/2 pol)
        npol = 1 + it % 2
        BWo = rnd.uniform(0.02, 0.9) * fs
        cx = rs.randn(npol, n) + 1j * rs.randn(npol, n)
        cy = rs.randn(npol, n) + 1j * rs.randn(npol, n)
        if npol == 2 and it % 4 == 1:
            cx[1] = cx[0]                                   # twin signal rows, different noise rows
        if npol == 2 and it % 4 == 3:
            cx[it % 8 // 4] = 0                              # a dark polarisation in the signal that still carries noise (an x-only carrier behind an amplifier)
        mk = lambda s_, n_=None: protect(optical_signal(s_ if npol == 2 else s_[0], None if n_ is None else (n_ if npol == 2 else n_[0])))
        with deadline(120):
            Bx, By = BPF(mk(cx), BWo, order).signal, BPF(mk(cy), BWo, order).signal
            law("linear", BPF(mk((a_ + 1j) * cx + b_ * cy), BWo, order).signal + 10, (a_ + 1j) * Bx + b_ * By + 10)
            Bo = BPF(mk(cx, cy), BWo, order)
            law("signal-and-noise-filtered-alike", Bo.noise + 10, By + 10)
            law("complex-envelope-kept", BPF(mk(1j * cx), BWo, order).signal + 10, 1j * Bx + 10)
            tiny = rnd.choice([1e-9, 1e-12, 1e6])
            bt = BPF(mk(tiny * cx, tiny * cy), BWo, order)
            law("linear", bt.signal / tiny + 10, Bx + 10)
            law("signal-and-noise-filtered-alike", bt.noise / tiny + 10, By + 10)
            if npol == 2:
                law("polarisations-independent", Bo.signal[1] + 10, BPF(optical_signal(cx[1]), BWo, order).signal + 10)
            law("constant-passes-unchanged", np.atleast_2d(BPF(mk(np.full((npol, n), 1 - 2j)), BWo, order).signal), np.full((npol, n), 1 - 2j), tol=10 ** 6)
            events.append({"kind": "shape", "same": bool(type(Bo) is optical_signal and Bo.n_pol == npol and Bo.signal.shape == mk(cx).signal.shape and Bo.noise is not None)})
            meta.append(("shape", "BPF"))
            if n >= 257 and BWo / 2 / fs * n >= 8:       # no delay in the optical filter either: a symmetric complex pulse stays symmetric about its centre
                p = np.exp(-((np.arange(n) - (n - 1) / 2) / (0.02 * n)) ** 2) * (0.6 - 0.8j)
                rB = BPF(optical_signal(p), BWo, order).signal
                law("zero-delay-symmetric-pulse", rB[::-1] + 1, rB + 1, tol=10 ** 6)
        ctx.case(("laws", order, n, npol, it % 3, BW / fs > 0.2), {"LPF/BPF laws": {"n": order, "BW/fs": BW / fs, "len": n, "npol": npol}})
    # ------------------------------------------------------------------ narrow and steep filters, long and odd records, twin signal rows
    from ..core import pollute_gv
    extra = [(4096, 8, 0.004, 128), (50001, 4, 0.05, 16), (40001, 7, 0.002, 64), (65536 + 1, 2, 0.3, 8), (1000, 8, 0.002, 128)] + ([(131073, 8, 0.001, 128)] if T else [])
    for it, (n, order, q, sps_) in enumerate(extra):
        with warnings.catch_warnings():
            warnings.simplefilter("ignore")
            gv(sps=sps_, R=10e9)
        pollute_gv(gv, it % 2 == 0)                     # user-defined globals do not matter when the arguments are explicit
        fs = gv.fs
        BW = q * fs
        rs = np.random.RandomState(50 + it)
        x, y = protect(rs.randn(n), rs.randn(n))
        cx, cn = rs.randn(n) + 1j * rs.randn(n), rs.randn(2, n) + 1j * rs.randn(2, n)
        with deadline(300):
            law("constant-passes-unchanged", LPF(np.full(n, 2.5), BW, order).signal, np.full(n, 2.5), tol=10 ** 6)
            law("constant-passes-unchanged", BPF(optical_signal(np.full(n, 1 - 2j)), BW, order).signal, np.full(n, 1 - 2j), tol=10 ** 6)
            Fe = LPF(protect(electrical_signal(x, y)), BW, order)
            events.append({"kind": "shape", "same": bool(type(Fe) is electrical_signal and Fe.len() == n and Fe.signal.shape == (n,) and Fe.noise.shape == (n,))})
            meta.append(("shape", "LPF-long"))
            law("signal-and-noise-filtered-alike", Fe.noise + 10, LPF(y, BW, order).signal + 10)
            law("linear", LPF(2 * x - 3 * y, BW, order).signal + 10, 2 * Fe.signal - 3 * Fe.noise + 10)
            # the two polarisations carry the same signal but different noise
            twin = protect(optical_signal(np.array([cx, cx]), cn))
            Bt = BPF(twin, BW, order)
            events.append({"kind": "shape", "same": bool(type(Bt) is optical_signal and Bt.n_pol == 2 and Bt.signal.shape == (2, n) and Bt.noise.shape == (2, n))})
            meta.append(("shape", "BPF-long"))
            for r_ in (0, 1):
                law("polarisations-independent", Bt.noise[r_] + 10, BPF(optical_signal(cn[r_]), BW, order).signal + 10)
                law("polarisations-independent", Bt.signal[r_] + 10, BPF(optical_signal(cx), BW, order).signal + 10)
        ctx.case(("extra", n, order, q), {"narrow/long": {"len": n, "n": order, "BW/fs": q}})
    pollute_gv(gv, False)
    # ------------------------------------------------------------------ tone contract
    for it in range(160 if T else 16):
        fs = setgv(it)
        n = 4096 if it % 2 == 0 else 4095                       # even and odd record lengths (fftshift and ifftshift differ on odd ones)
        order = 1 + it % 8
        kc = rnd.randrange(int(0.02 * n), int(0.40 * n))        # cutoff bin (on the FFT grid)
        BW = kc * fs / n
        t = np.arange(n) / fs

        def att_lpf(k):
            x = np.cos(2 * np.pi * k * fs / n * t + 0.3)
            yv = LPF(x, BW, order).signal
            return -10 * math.log10(np.mean(mid(yv) ** 2) / np.mean(mid(x) ** 2))

        def att_bpf(k):        # k may be negative: either side of the carrier
            x = np.exp(2j * np.pi * k * fs / n * t)
            yv = BPF(optical_signal(x), 2 * BW, order).signal
            return -10 * math.log10(np.mean(np.abs(mid(yv)) ** 2) / np.mean(np.abs(mid(x)) ** 2))

        with deadline(300):
            events.append({"kind": "cutoff", "mdB": int(round(att_lpf(kc) * 1000))}); meta.append(("cutoff", "LPF", order))
            events.append({"kind": "cutoff", "mdB": int(round(att_bpf(kc) * 1000))}); meta.append(("cutoff", "BPF+", order))
            events.append({"kind": "cutoff", "mdB": int(round(att_bpf(-kc) * 1000))}); meta.append(("cutoff", "BPF-", order))
            ks = sorted({max(1, int(kc * f)) for f in (0.1, 0.3, 0.6, 0.9, 1.0, 1.2, 1.6, 2.2)} & set(range(1, n // 2 - 1)))
            lad = [att_lpf(k) for k in ks]
            events.append({"kind": "mono", "ladder": [int(round(min(v, 300) * 1000)) for v in lad]}); meta.append(("mono", "LPF", order))
            ladb = [att_bpf(k) for k in ks]
            events.append({"kind": "mono", "ladder": [int(round(min(v, 300) * 1000)) for v in ladb]}); meta.append(("mono", "BPF", order))
            for v in lad + ladb:
                events.append({"kind": "gain", "mdB": int(round(-min(v, 300) * 1000))}); meta.append(("gain", order))
            out, H = LPF(np.cos(2 * np.pi * kc * fs / n * t), BW, order, retH=True)
            # the same record regarded as sampled on its own grid (explicit fs different from the global one, cutoff scaled alike):
            # same output, and the response returned is the same function of the bin index
            for sc_ in (4.0, 0.5):
                out2, H2 = LPF(np.cos(2 * np.pi * kc * fs / n * t), BW * sc_, order, fs=fs * sc_, retH=True)
                law("explicit-fs-rescales-the-grid", out2.signal + 10, out.signal + 10, tol=10 ** 4)
                out3 = LPF(electrical_signal(np.cos(2 * np.pi * kc * fs / n * t)), BW * sc_, order, fs=fs * sc_)       # a signal object with an explicit rate: same thing
                law("explicit-fs-rescales-the-grid", out3.signal + 10, out.signal + 10, tol=10 ** 4)
                law("explicit-fs-rescales-the-grid", np.asarray(H2) + 10, np.asarray(H) + 10, tol=10 ** 4)
            Hs = np.fft.ifftshift(H)                                   # back to FFT order: bin k <-> k*fs/n
            pairs = [[int(round(2 * 20 * math.log10(abs(Hs[k])) * 1000)), int(round(-a * 1000))] for k, a in zip(ks, lad) if a < 60]
            pairs.append([int(round(2 * 20 * math.log10(max(abs(Hs[0]), 1e-30)) * 1000)), 0])        # DC bin: unit gain
            events.append({"kind": "reth", "cut_mdB": int(round(20 * math.log10(abs(Hs[kc])) * 1000)), "pairs": pairs}); meta.append(("reth", order))
        ctx.case(("tones", order, kc * 10 // n, it % 3), {"tone contract": {"n": order, "cutoff_bin": kc, "fs": fs}})
    # ------------------------------------------------------------------ history independence
    for it, (cfgA, cfgB) in enumerate([(dict(sps=16, R=2.5e9), dict(sps=8, R=10e9)), (dict(sps=8, R=10e9), dict(sps=16, R=1e9))]):
        rs = np.random.RandomState(700 + it)
        x = rs.randn(300)
        cx = rs.randn(300) + 1j * rs.randn(300)
        with warnings.catch_warnings():
            warnings.simplefilter("ignore")
            gv(**cfgA); LPF(x, 2e9); BPF(optical_signal(cx), 3e9)
            gv(**cfgB); a1, a2 = LPF(x, 2e9).signal, BPF(optical_signal(cx), 3e9).signal
            with fresh_repo() as lib:
                lib["typing"].gv(**cfgB)
                f1, f2 = lib["devices"].LPF(x, 2e9).signal, lib["devices"].BPF(lib["typing"].optical_signal(cx), 3e9).signal
        law("result-independent-of-call-history", a1 + 10, f1 + 10)
        law("result-independent-of-call-history", a2 + 10, f2 + 10)
        ctx.case(("history", it))
    gv.clean()
    ctx.assumptions.append("the Bessel response itself is not modelled: the clauses are contracts (law residuals, tone attenuations in the central half of "
                           "4096-sample records) judged by FilterTrace.tla; tolerances: 0.15 dB at cutoff, 0.01 dB monotonicity slack, 0.1 dB retH agreement")
    for idx, clause in ctx.validate("FilterTrace", events, note="filter laws and tones"):
        m = meta[idx - 1]
        ctx.violation(f"{m[0]}:{m[1]}:{clause}", f"{m} rejected: {events[idx - 1]}", {"event": events[idx - 1], "case": m})
