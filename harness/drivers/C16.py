"""C16 - FBG is a passive reflector matching coupled-mode closed forms.
Spec: Grating.tla (resolution tree over the 128 presence patterns, Bragg tanh lattice, profile integrals), GratingTrace.tla (contract)."""
import random, math, warnings
import numpy as np
from scipy.constants import c as C0
from ..core import deadline, import_repo, fresh_repo, protect

LEVEL = "exploration"


def val(sci_pair):
    return sci_pair[0] * 10.0 ** sci_pair[1]


def run(ctx):
    ctx.rule = ("case = one FBG call: a presence pattern of the design arguments replayed from the TLC table, a Bragg-lattice design, a route-equivalence "
                "pair or a random design measured for passivity/filter identity/energy, judged by TLC; class = (kind, apodisation, route, chirp, layout, N)")
    T = ctx.thorough
    ctx.tlc("Grating", "SPECIFICATION Spec\nINVARIANT CompleteAccepted\nINVARIANT IncompleteRejected\nINVARIANT Disjoint\nCHECK_DEADLOCK FALSE\n",
            note="resolution tree: all 128 presence patterns")
    tab = ctx.tlc_eval("GratingEmit", note="resolution table, tanh lattice, profile integrals", cfg="INIT Init\nNEXT Next\nCHECK_DEADLOCK FALSE\n")
    ctx.exhaustive = True
    import_repo()
    from opticomlib.devices import FBG
    from opticomlib.typing import gv, optical_signal, electrical_signal
    rnd = random.Random(ctx.seed)
    events, meta = [], []
    warnings.filterwarnings("ignore")

    def setgv(i):
        # fs = 160, 200, 400 GS/s; the optical carrier of the simulation is not always the default 1550 nm
        gv(sps=[16, 8, 32][i % 3], R=[10e9, 25e9, 12.5e9][i % 3], wavelength=[1550e-9, 1550.12e-9, 1310e-9, 1549.3e-9][i % 4])
        return gv.fs

    def rel(a, b):
        a, b = np.asarray(a), np.asarray(b)
        if a.shape != b.shape or not np.all(np.isfinite(a)) or not np.all(np.isfinite(b)):
            return 10 ** 9
        return int(min(10 ** 9, float(np.max(np.abs(a - b)) / max(np.max(np.abs(b)), 1e-300)) * 1e12))

    neff, v = 1.45, 1.0
    # ---- 1. resolution tree replayed: consistent values for every argument
    setgv(0)
    n = 256
    xin = optical_signal(np.random.RandomState(0).randn(n) + 0j)
    lD = C0 / gv.f0
    vd = 1e-4
    Nper = 8000
    Lm = Nper * lD / (2 * neff)
    kL = math.pi * vd * Lm / lD
    allv = {"fc": gv.f0, "landa": lD, "dneff": vd, "vdneff": vd, "kL": kL, "L": Lm, "N": Nper}
    argname = {"fc": "fc", "landa": "landa_D", "dneff": "dneff", "vdneff": "vdneff", "kL": "kL", "L": "L", "N": "N"}
    for row in tab["table"]:
        g = row["g"]
        kw = {argname[a]: allv[a] for a in g if g[a]}
        try:
            with deadline(120):
                FBG(xin, neff=neff, v=v, print_params=False, **kw)
            raised = "ok"
        except ValueError:
            raised = "ValueError"
        except Exception as e:
            raised = type(e).__name__
        events.append({"kind": "verdict", "complete": row["complete"], "incomplete": row["incomplete"], "spec": row["verdict"], "raised": raised})
        meta.append(("verdict", "".join(sorted(a for a in g if g[a]))))
        ctx.case(("pattern", tuple(sorted(a for a in g if g[a]))), {"given": sorted(a for a in g if g[a]), "verdict": row["verdict"]}, nontrivial=row["verdict"] == "ok")
    ctx.behaviours += len(tab["table"])
    # ---- 2. Bragg reflectivity on the tanh lattice, every profile
    tri = lambda z: 1 - np.abs(z)
    quad = lambda z: 0.5 + z ** 2
    tilt = lambda z: 1 + 0.8 * z
    profs = {"uniform": "uniform", "parabolic": "parabolic", "rcos": "rcos", "gaussian": "gaussian", "tri": tri, "quad": quad, "tilt": tilt}
    for it, (pname, apo) in enumerate(profs.items()):
        for pt in tab["lattice"]:
            fs = setgv(it)
            n = rnd.choice([256, 512, 255, 333] + ([2048] if T else []))
            v = rnd.choice([1.0, 0.8, 0.5])                  # visibility: immaterial when the design is given through vdneff
            x = optical_signal(np.random.RandomState(it).randn(n) + 0j)
            kLv = val(pt["kLI"]) / val(tab["profiles"][pname])
            route = rnd.choice(["fc", "landa_D"])
            kw = {"fc": gv.f0} if route == "fc" else {"landa_D": C0 / gv.f0}
            with deadline(300):
                out, H = FBG(x, neff=neff, v=v, vdneff=rnd.choice([1e-5, 1e-4, 1e-3]), kL=kLv, apodization=apo, print_params=False, retH=True, **kw)
            events.append({"kind": "bragg", "num": pt["num"], "den": pt["den"], "got_ppm": int(round(abs(H[n // 2]) ** 2 * 1e6))})
            meta.append(("bragg", pname))
            ctx.case(("bragg", pname, pt["num"], route), {"apodization": pname, "kL": kLv, "expect": f"{pt['num']}/{pt['den']}"})
    # ---- 3. route equivalence: (fc | landa_D) x (kL | L | N) for the same vdneff
    for it in range(40 if T else 4):
        fs = setgv(it)
        n = 256
        x = optical_signal(np.random.RandomState(50 + it).randn(n) + 0j)
        lD = C0 / gv.f0
        vdn = rnd.choice([1e-5, 1e-4, 1e-3])
        Np = rnd.randrange(2000, 200000) if vdn < 5e-4 else rnd.randrange(500, 8000)
        Lm = Np * lD / (2 * neff)
        kLv = math.pi * vdn * Lm / lD
        F_ = rnd.choice([0, 0, 5.0, -12.0])
        apo = rnd.choice(["uniform", "rcos", "gaussian", "parabolic"])
        v = [1.0, 0.8, 0.5, 0.9][it % 4]
        Hs = {}
        for cen in ("fc", "landa_D"):
            for ln, lv in (("kL", kLv), ("L", Lm), ("N", Np)):
                kw = {cen: gv.f0 if cen == "fc" else lD, ln: lv}
                with deadline(300):
                    _, Hs[(cen, ln)] = FBG(x, neff=neff, v=v, vdneff=vdn, F=F_, apodization=apo, print_params=False, retH=True, **kw)
        ref = Hs[("fc", "kL")]
        for k_, H in Hs.items():
            events.append({"kind": "route", "ppt": rel(H + 2, ref + 2)})
            meta.append(("route", k_))
        ctx.case(("routes", apo, F_ != 0, vdn))
    # ---- 4. random designs: passivity, filter identity, energy, shape
    for it in range(300 if T else 20):
        fs = setgv(it)
        n = rnd.choice([256, 512, 1024, 255, 777] + ([4096] if T else []))
        npol = 1 + it % 2
        v = rnd.choice([1.0, 0.8, 0.5])
        rs = np.random.RandomState(100 + it)
        f = rs.randn(npol, n) + 1j * rs.randn(npol, n)
        if it % 4 == 3:
            f = f.real.copy()                            # a field stored with a real dtype (the response of a grating is not Hermitian)
        x = protect(optical_signal(f if npol == 2 else f[0]))
        apo = rnd.choice(["uniform", "rcos", "gaussian", "parabolic", tri, quad])
        kLv, vdn, F_ = rnd.uniform(0.1, 8), 10 ** rnd.uniform(-5, -3), rnd.choice([0, rnd.uniform(-20, 20)])
        det = rnd.uniform(-0.2, 0.2) * fs
        with deadline(600):
            out, H = FBG(x, neff=neff, v=v, fc=gv.f0 + det, vdneff=vdn, kL=kLv, F=F_, apodization=apo, print_params=False, retH=True)
        events.append({"kind": "passive", "max_ppm": int(round((float(np.max(np.abs(H) ** 2)) - 1) * 1e6))})
        meta.append(("passive", npol))
        want = np.fft.ifft(np.fft.fft(x.signal, axis=-1) * np.fft.ifftshift(H), axis=-1)
        events.append({"kind": "filt", "ppt": rel(out.signal + 10, want + 10)})
        meta.append(("filt", npol))
        ein, eout = np.sum(np.abs(np.atleast_2d(x.signal)) ** 2, axis=-1), np.sum(np.abs(np.atleast_2d(out.signal)) ** 2, axis=-1)
        for p_ in range(npol):
            events.append({"kind": "energy", "excess_ppm": int(round((eout[p_] / ein[p_] - 1) * 1e6))})
            meta.append(("energy", npol))
        events.append({"kind": "shape", "same": bool(type(out) is optical_signal and out.signal.shape == x.signal.shape and H.shape == (n,))})
        meta.append(("shape", npol))
        ctx.case(("random", apo if isinstance(apo, str) else "callable", F_ != 0, npol, n, it % 3), {"kL": kLv, "vdneff": vdn, "F": F_, "detuning/fs": det / fs})
    # ---- 5. uniform unchirped gratings: the whole spectrum against the closed form
    for it in range(120 if T else 10):
        fs = setgv(it)
        n = rnd.choice([256, 255, 512, 777])
        v = rnd.choice([1.0, 0.8, 0.5])
        x = optical_signal(np.random.RandomState(400 + it).randn(n) + 0j)
        vdn, kLv = 10 ** rnd.uniform(-5, -3) if it % 2 else 10 ** rnd.uniform(-5, -4), rnd.uniform(0.1, 8)
        if it % 5 == 4:
            kLv = [12.0, 16.0, 12.0, 14.0][(it // 5) % 4]      # strong gratings (the documentation's own example uses kL = 16, vdneff = 1e-4)
            vdn = [5e-4, 1e-4, 4e-4, 3e-5][(it // 5) % 4]      # ... where RK45 at its default tolerances is still accurate to 3e-3 (it is not beyond: 0.1 at vdneff = 1e-3)
        det = rnd.uniform(-0.2, 0.2) * fs
        lD = C0 / (gv.f0 + det)
        route = it % 3
        kap = math.pi * vdn / lD
        Lm = kLv / kap
        kw = [dict(fc=gv.f0 + det, kL=kLv), dict(landa_D=lD, L=Lm), dict(fc=gv.f0 + det, L=Lm)][route]
        with deadline(300):
            _, H = FBG(x, neff=neff, v=v, vdneff=vdn, print_params=False, retH=True, **kw)
        fgrid = np.fft.fftshift(np.fft.fftfreq(n)) * fs - det
        d = 2 * math.pi * neff * fgrid / C0
        g = np.sqrt((kap ** 2 - d ** 2).astype(complex))
        Rcf = (np.sinh(g * Lm) ** 2 / (np.cosh(g * Lm) ** 2 - d ** 2 / kap ** 2)).real
        dev = float(np.max(np.abs(np.abs(H) ** 2 - Rcf))) if H.shape == Rcf.shape and np.all(np.isfinite(H)) else 1.0
        events.append({"kind": "spectrum", "dev_ppm": int(round(dev * 1e6)), "weak": bool(vdn <= 2e-4 and kLv <= 8), "strong": bool(kLv > 8)})
        meta.append(("spectrum", route))
        far = np.abs(d) / kap > 10                       # side lobes far from the stop band: small, but they carry a definite energy
        if H.shape == Rcf.shape and far.sum() >= 8 and float(np.sum(Rcf[far])) > 1e-4:
            events.append({"kind": "lobes", "ratio_ppm": int(round(float(np.sum(np.abs(H[far]) ** 2) / np.sum(Rcf[far])) * 1e6))})
            meta.append(("lobes", route))
        ctx.case(("spectrum", route, n % 2, v, kLv > 4), {"uniform grating": {"kL": kLv, "vdneff": vdn, "v": v, "n": n, "max deviation": dev}})
    v = 1.0
    # history independence: same grating and record length under another sampling rate before
    for it, (cfgA, cfgB) in enumerate([(dict(sps=16, R=10e9), dict(sps=8, R=25e9)), (dict(sps=32, R=12.5e9), dict(sps=16, R=10e9))]):
        xs = np.random.RandomState(300 + it).randn(256) + 0j
        kw = dict(neff=neff, v=v, landa_D=1550e-9, vdneff=1e-4, kL=2.0, print_params=False, retH=True)
        gv(**cfgA); FBG(optical_signal(xs), **kw)
        gv(**cfgB); _, Ha = FBG(optical_signal(xs), **kw)
        with fresh_repo() as lib:
            lib["typing"].gv(**cfgB)
            _, Hf = lib["devices"].FBG(lib["typing"].optical_signal(xs), **kw)
        events.append({"kind": "route", "ppt": rel(Ha + 2, Hf + 2)})
        meta.append(("route", "history-independent"))
        ctx.case(("history", it))
    try:
        FBG(electrical_signal(np.ones(8)), fc=gv.f0, vdneff=1e-4, kL=1.0, print_params=False)
        raised = "ok"
    except TypeError:
        raised = "TypeError"
    if raised != "TypeError":
        ctx.violation("non-optical-input-accepted", "FBG accepted an electrical_signal", {})
    gv.clean()
    ctx.assumptions.append("the off-Bragg spectrum sinh^2/(cosh^2 - d^2/k^2) needs a transcendental oracle per bin: the harness evaluates the closed form in "
                           "floating point and TLC judges the maximal deviation (1.5e-2, accuracy of RK45 at its default tolerances); the Bragg point is decided "
                           "on the tanh lattice (atanh(3/5)=ln2 ...), with profile integrals as Sci constants of Grating.tla")
    for idx, clause in ctx.validate("GratingTrace", events, note="FBG contract"):
        m = meta[idx - 1]
        ctx.violation(f"{m[0]}:{m[1]}:{clause}", f"{m} rejected: {events[idx - 1]}", {"event": events[idx - 1], "case": m})
