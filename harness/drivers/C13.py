"""C13 - analytic BER and receiver-noise formulas match closed forms and each other.
Spec: BerModel.tla (abstract error integral under the axioms of Q), Units.tla/UnitsEmit.tla (receiver model as dimension-checked monomials),
BerTrace.tla (contract on lattice points, orderings and equalities between API programs), Sci.tla (Q table)."""
import random, math, warnings
import numpy as np
from scipy.constants import k as KB, e as QE, h as HP, c as C0
from ..core import deadline, import_repo
from ..sci import sci

LEVEL = "exploration"


def evalmono(m, vals):
    v = m["num"] / m["den"]
    for s, p in m["pow"].items():
        v *= vals[s] ** p
    return v


def run(ctx):
    ctx.rule = ("case = one evaluation (lattice point, ordering, equality between API programs) of the BER/threshold/receiver-noise functions judged by "
                "TLC; class = (clause name, M, decision, parameter class); non-trivial = finite value returned")
    T = ctx.thorough
    ctx.tlc("BerModel", "SPECIFICATION Spec\nINVARIANT NonIncreasingInMu\nINVARIANT BoundedByHalf\nINVARIANT FactorBounds\nCHECK_DEADLOCK FALSE\n"
            "CONSTANTS K = %d\n S = 6\n" % (4 if T else 3), note="error integral under the axioms of Q (every decreasing symmetric Q on a grid)", timeout=3000)
    monos = ctx.tlc_eval("UnitsEmit", note="receiver-model monomials (dimension and A^2<->V^2 agreement checked by TLC)")
    import_repo()
    import opticomlib.ook as ook
    import opticomlib.ppm as ppm
    import opticomlib.utils as ut
    from opticomlib.typing import eye
    rnd = random.Random(ctx.seed)
    events, meta = [], []

    def ev(kind, name, **kw):
        events.append({"kind": kind, "name": name, **kw})
        meta.append((kind, name))

    def eq(name, a, b, tol=200):
        ev("eq", name, a=sci(a), b=sci(b), tol=tol)

    def leq(name, a, b):
        ev("leq", name, a=sci(a), b=sci(b))

    warnings.filterwarnings("ignore")
    # ---- whole-number levels written as integers (Python int, int list, integer ndarray / arange sweep): the same values as for floats
    for M_ in (2, 4, 16):
        for dec_ in ("soft", "hard"):
            for mu_i, s0_, s1_ in ((1, 0.12, 0.2), (3, 0.5, 0.7), (2, 1, 1)):
                with deadline(60):
                    ref = float(ppm.theory_BER(float(mu_i), float(s0_), float(s1_), M_, dec_))
                    got = float(ppm.theory_BER(mu_i, s0_, s1_, M_, dec_))
                    sweep = ppm.theory_BER(np.arange(mu_i, mu_i + 3), s0_, s1_, M_, dec_)
                    lst = ppm.theory_BER([mu_i, mu_i + 1], s0_, s1_, M_, dec_)
                    ref1 = float(ppm.theory_BER(mu_i + 1.0, float(s0_), float(s1_), M_, dec_))
                eq("value-independent-of-argument-dtype", got + 1e-6, ref + 1e-6, tol=3000)
                eq("value-independent-of-argument-dtype", float(np.asarray(sweep)[0]) + 1e-6, ref + 1e-6, tol=3000)
                eq("value-independent-of-argument-dtype", float(np.asarray(sweep)[1]) + 1e-6, ref1 + 1e-6, tol=3000)
                eq("value-independent-of-argument-dtype", float(np.asarray(lst)[1]) + 1e-6, ref1 + 1e-6, tol=3000)
        ctx.case(("int-levels", "ppm", M_))
    for mu_i, s0_, s1_ in ((1, 0.12, 0.2), (3, 0.5, 0.7), (4, 1, 1)):
        with deadline(60):
            ref = float(ook.theory_BER(float(mu_i), float(s0_), float(s1_)))
            eq("value-independent-of-argument-dtype", float(ook.theory_BER(mu_i, s0_, s1_)) + 1e-9, ref + 1e-9, tol=3000)
            eq("value-independent-of-argument-dtype", float(np.asarray(ook.theory_BER(np.arange(mu_i, mu_i + 2), s0_, s1_))[0]) + 1e-9, ref + 1e-9, tol=3000)
    ctx.case(("int-levels", "ook"))
    # ---- lattice points against the Q table
    for k in range(0, 9):
        for s in (0.1, 1.0, 3e-3):
            with deadline(60):
                v = float(ook.theory_BER(2 * k * s, s, s))
            events.append({"kind": "qpoint", "fn": "ook.theory_BER(2ks,s,s)", "k": k, "val": sci(v), "slack": 100000 if k <= 6 else 300000})
            meta.append(("qpoint", "ook", k))
            if 1 <= k <= 4:          # the soft formula is 1 - quad(...): scipy's quad has absolute tolerance 1.5e-8, so only values >= 1e-5 are compared
                v2 = float(ppm.theory_BER(5 * k * s, 3 * s, 4 * s, 2, "soft"))
                events.append({"kind": "qpoint", "fn": "ppm.theory_BER(5ks,3s,4s,M=2,soft)", "k": k, "val": sci(v2), "slack": 300000})
                meta.append(("qpoint", "ppm", k))
            ctx.case(("qpoint", k, s), {"ook.theory_BER": [2 * k * s, s, s], "->": v})
    # ---- general two-level points: relations through API programs only
    for it in range(800 if T else 50):
        s0, s1 = 10 ** rnd.uniform(-3, 0), 10 ** rnd.uniform(-3, 0)
        if it % 4 == 0:
            s1 = s0
        mu = rnd.uniform(0.2, 20) * max(s0, s1)
        M = rnd.choice([2, 4, 8, 16, 64, 256])
        with deadline(120):
            v = float(ook.theory_BER(mu, s0, s1))
            err = lambda r: 0.5 * (float(ut.Q((mu - r) / s1)) + float(ut.Q(r / s0)))         # the statement's error integral, through the API's Q
            ropt = float(ut.optimum_threshold(0.0, mu, s0 ** 2, s1 ** 2, "ook")) if s0 != s1 else mu / 2
            if 0 < ropt < mu and v > 1e-250:
                leq("ook-never-below-true-minimum", err(ropt) * (1 - 1e-7), v)
                if mu / min(s0, s1) <= 8:        # grid spacing mu/999 against the width of the optimum: excess <= exp((mu/s)^2/4000) < 2 %
                    leq("ook-within-grid-error-of-minimum", v, err(ropt) * 1.02 + 1e-300)
            for r in (mu * 100 / 999, mu * 500 / 999, mu * 777 / 999):
                leq("ook=error-integral-on-grid", v, err(r) * (1 + 1e-7))
            soft = float(ppm.theory_BER(mu, s0, s1, M, "soft"))
            hard = float(ppm.theory_BER(mu, s0, s1, M, "hard"))
            leq("ppm-soft<=hard", soft, hard * (1 + 1e-6) + 3e-8)           # quad: absolute tolerance 1.5e-8
            for b in (soft, hard, v if M == 2 else soft):
                leq("bounded-by-M/(2(M-1))", b, M / (2 * (M - 1)) * (1 + 1e-9))
            if M == 2:
                eq("ppm-soft-M2=Q", soft + 1e-3, float(ut.Q(mu / math.sqrt(s0 ** 2 + s1 ** 2))) + 1e-3, tol=3000)          # |a-b| <= 3e-8 + 3e-5 b
            # vectorisation
            arr = ook.theory_BER(np.array([mu, 2 * mu]), s0, s1)
            eq("vectorises-elementwise", float(arr[0]), v)
            eq("vectorises-elementwise", float(arr[1]), float(ook.theory_BER(2 * mu, s0, s1)))
            arrp = ppm.theory_BER(np.array([mu, 1.5 * mu]), s0, s1, M, "hard")
            eq("vectorises-elementwise", float(arrp[1]), float(ppm.theory_BER(1.5 * mu, s0, s1, M, "hard")))
            for dec_ in ("hard", "soft"):          # every argument an array, scales three decades apart
                wide = ppm.theory_BER(np.array([mu, 1000 * mu]), np.array([s0, 1000 * s0]), np.array([s1, 1000 * s1]), M, dec_)
                one = float(ppm.theory_BER(mu, s0, s1, M, dec_))
                eq("vectorises-elementwise", float(wide[0]) + 1e-3, one + 1e-3, tol=3000)
                eq("vectorises-elementwise", float(wide[1]) + 1e-3, one + 1e-3, tol=3000)
            wo = ook.theory_BER(np.array([mu, 1000 * mu]), np.array([s0, 1000 * s0]), np.array([s1, 1000 * s1]))
            eq("vectorises-elementwise", float(wo[1]), v, tol=2000)
            # sweeps that start at a degenerate point (no noise at all; an essentially error-free point): the other elements are untouched
            with np.errstate(all="ignore"):
                sw0 = ook.theory_BER(mu, np.array([0.0, s0, 2 * s0]), np.array([0.0, s1, 2 * s1]))
                swp = ppm.theory_BER(mu, np.array([0.0, s0, 2 * s0]), np.array([0.0, s1, 2 * s1]), M, "hard")
                sws = ppm.theory_BER(np.array([60 * (s0 + s1), mu, 1.5 * mu]), s0, s1, M, "soft")
                swh = ook.theory_BER(np.array([200 * (s0 + s1), mu]), s0, s1)
            eq("vectorises-elementwise", float(sw0[1]), v)
            eq("vectorises-elementwise", float(sw0[2]), float(ook.theory_BER(mu, 2 * s0, 2 * s1)))
            eq("vectorises-elementwise", float(swp[1]), hard)
            eq("vectorises-elementwise", float(sws[1]) + 1e-3, soft + 1e-3, tol=3000)
            eq("vectorises-elementwise", float(sws[2]) + 1e-3, float(ppm.theory_BER(1.5 * mu, s0, s1, M, "soft")) + 1e-3, tol=3000)
            eq("vectorises-elementwise", float(swh[1]), v)
            # monotone in mu
            ladder = [mu * f for f in (0.5, 0.8, 1.0, 1.3, 2.0)]
            for fn, name in ((lambda m: ook.theory_BER(m, s0, s1), "ook"), (lambda m: ppm.theory_BER(m, s0, s1, M, "soft"), "soft"), (lambda m: ppm.theory_BER(m, s0, s1, M, "hard"), "hard")):
                vals = [float(fn(m)) for m in ladder]
                if name == "soft":
                    vals = [x + 1e-3 for x in vals]          # absolute accuracy of quad (1.5e-8): compared with slack 3e-5 of 1e-3
                if min(vals) > 1e-200:
                    events.append({"kind": "mono", "name": "BER-non-increasing-in-mu", "seq": [sci(x) for x in vals], "slack": 3000 if name == "soft" else 2})
                    meta.append(("mono", name))
            # estimators / thresholds on eye statistics: translation invariance
            mu0, c = rnd.uniform(-1, 1), rnd.uniform(-5, 5)
            e1 = eye(mu0=mu0, mu1=mu0 + mu, s0=s0, s1=s1)
            e2 = eye(mu0=mu0 + c, mu1=mu0 + mu + c, s0=s0, s1=s1)
            b1, b2 = float(ook.BER_analizer("estimator", eye_obj=e1)), float(ook.BER_analizer("estimator", eye_obj=e2))
            if b1 > 1e-200:
                # (probabilities formed as 1 - (1 - p) carry an absolute rounding error of about M*1e-16: an absolute allowance of 3e-12 next to the relative one)
                eq("estimator-translation-invariant", b1 + 1e-9, b2 + 1e-9, tol=20000)
                eq("estimator=formula-on-eye-statistics", b1 + 1e-9, v + 1e-9, tol=300000)
            # an eye object that also carries other fields (as the ones GET_EYE returns do): the estimate only depends on mu1-mu0, s0, s1 (and M)
            e3 = eye(mu0=mu0, mu1=mu0 + mu, s0=s0, s1=s1, threshold=mu0 + 0.8 * mu, t_opt=0.1, i=3, sps=16)
            b3 = float(ook.BER_analizer("estimator", eye_obj=e3))
            if b1 > 1e-200:
                eq("estimator-translation-invariant", b3 + 1e-9, b1 + 1e-9, tol=20000)
            for dec in ("soft", "hard"):
                p3 = float(ppm.BER_analizer("estimator", eye_obj=e3, M=M, decision=dec))
                p1_ = float(ppm.BER_analizer("estimator", eye_obj=e1, M=M, decision=dec))
                if p1_ > 1e-200:
                    eq("estimator-translation-invariant", p3 + (1e-5 if dec == "soft" else 1e-9), p1_ + (1e-5 if dec == "soft" else 1e-9), tol=20000)
            for dec in ("soft", "hard"):
                p1 = float(ppm.BER_analizer("estimator", eye_obj=e1, M=M, decision=dec))
                p2 = float(ppm.BER_analizer("estimator", eye_obj=e2, M=M, decision=dec))
                if p1 > 1e-200:
                    # absolute allowance: 3e-12 (hard: rounding of 1 - product of M probabilities) / 3e-8 (soft: the quadrature's absolute accuracy, as above)
                    c_ = 1e-5 if dec == "soft" else 1e-9
                    eq("estimator-translation-invariant", p1 + c_, p2 + c_, tol=20000)
                    eq("estimator=formula-on-eye-statistics", p1 + c_, float(ppm.theory_BER(mu, s0, s1, M, dec)) + c_, tol=300000)
            t1, t2 = float(ook.THRESHOLD_EST(e1)), float(ook.THRESHOLD_EST(e2))
            eq("threshold-translation-equivariant", (t2 - t1 - c) / mu + 1, 1.0, tol=400000)      # equal up to a few steps of the 1000-point threshold grid
            ev("inside", "threshold-inside-[mu0,mu1]", lo=sci(mu0 + 100), x=sci(t1 + 100), hi=sci(mu0 + mu + 100))
            # the same eye in other units (a photocurrent of tens of nA, microvolts, kilovolts)
            for al_ in (1e-7, 1e-5, 1e3):
                ea = eye(mu0=al_ * mu0, mu1=al_ * (mu0 + mu), s0=al_ * s0, s1=al_ * s1)
                eq("threshold-covariant-under-a-change-of-units", (float(ook.THRESHOLD_EST(ea)) / al_ - mu0) / mu + 1, (t1 - mu0) / mu + 1, tol=400000)
                eq("threshold-covariant-under-a-change-of-units", (float(ppm.THRESHOLD_EST(ea, M)) / al_ - mu0) / mu + 1, (float(ppm.THRESHOLD_EST(e1, M)) - mu0) / mu + 1, tol=400000)
                ba = float(ook.BER_analizer("estimator", eye_obj=ea))
                if b1 > 1e-200:
                    eq("estimator-translation-invariant", ba, b1, tol=20000)
            tp = float(ppm.THRESHOLD_EST(e1, M))
            # the same eye object queried for several orders in turn: each answer only depends on (mu0, mu1, s0, s1, M)
            for Mq in (4, 64, 2, M):
                got_q = float(ppm.THRESHOLD_EST(e1, Mq))
                fresh_q = float(ppm.THRESHOLD_EST(eye(mu0=mu0, mu1=mu0 + mu, s0=s0, s1=s1), Mq))
                eq("estimator-translation-invariant", got_q + 100, fresh_q + 100, tol=20)
                bq = float(ppm.BER_analizer("estimator", eye_obj=e1, M=Mq, decision="hard"))
                bf = float(ppm.BER_analizer("estimator", eye_obj=eye(mu0=mu0, mu1=mu0 + mu, s0=s0, s1=s1), M=Mq, decision="hard"))
                if bf > 1e-200:
                    eq("estimator-translation-invariant", bq, bf, tol=20000)
            ev("inside", "threshold-inside-[mu0,mu1]", lo=sci(mu0 + 100), x=sci(tp + 100), hi=sci(mu0 + mu + 100))
            if s0 == s1:
                ev("inside", "ook-threshold-midpoint-for-equal-sigmas", lo=sci(mu0 + mu / 2 - mu / 900 + 100), x=sci(t1 + 100), hi=sci(mu0 + mu / 2 + mu / 900 + 100))
            else:
                for mod, MM in (("ook", 2), ("ppm", M)):
                    th = float(ut.optimum_threshold(mu0, mu0 + mu, s0 ** 2, s1 ** 2, mod, MM))
                    if mu0 < th < mu0 + mu:
                        lhs = (MM - 1) * float(ut.gaus(th, mu0, s0))
                        rhs = float(ut.gaus(th, mu0 + mu, s1))
                        if min(lhs, rhs) > 1e-250:
                            eq("optimum-threshold-solves-density-equation", lhs, rhs, tol=50000)
                        ev("inside", "threshold-inside-[mu0,mu1]", lo=sci(mu0 + 100), x=sci(th + 100), hi=sci(mu0 + mu + 100))
                        # the same receiver expressed in other units (volts -> 0.1 mV, uV, kV): variances of 1e-9 V^2 and below are ordinary
                        for al_ in (1e-4, 1e-6, 1e3):
                            th_a = float(ut.optimum_threshold(al_ * mu0, al_ * (mu0 + mu), (al_ * s0) ** 2, (al_ * s1) ** 2, mod, MM))
                            eq("threshold-covariant-under-a-change-of-units", (th_a / al_ - mu0) / mu + 1, (th - mu0) / mu + 1, tol=2000)
        ctx.case(("two-level", M, s0 == s1, mu / max(s0, s1) > 8), {"mu": mu, "s0": s0, "s1": s1, "M": M})
    # ---- receiver model
    for it in range(600 if T else 72):
        P = rnd.uniform(-50, 0)
        M = rnd.choice([2, 4, 16, 256])
        mod = "ook" if it % 3 == 0 else "ppm"
        ER = rnd.choice([3.0, 10.0, 20.0, np.inf])
        amp = it % 2 == 0
        G, NF = rnd.uniform(0, 40), rnd.uniform(3, 10)
        BWel = 10 ** rnd.uniform(8.5, 10.3)
        BWopt = BWel * rnd.uniform(1.5, 20)
        r_, RL, Tk, NFel = rnd.uniform(0.1, 1.0), 10 ** rnd.uniform(1, 4), (rnd.uniform(1, 400) if it % 6 else 0.0), 0.0     # T = 0 included
        wl = rnd.choice([1550e-9, 1310e-9])
        Mm = 2 if mod == "ook" else M
        with deadline(120):
            mu, muase = ut.average_voltages(P, mod, M, ER, amp, wl, G, NF, BWopt, r_, RL)
            S = ut.noise_variances(P, mod, M, ER, amp, wl, G, NF, BWopt, r_, BWel, RL, Tk, NFel)
            g = 10 ** (G / 10)
            vals = {"kB": KB, "T": Tk, "Fn": 10 ** (NFel / 10), "B": BWel, "R": RL, "e": QE, "r": r_, "NF": 10 ** (NF / 10), "h": HP, "f0": C0 / wl,
                    "G1": g - 1, "Bopt": BWopt, "G": g}
            if amp:
                eq("p_ase=monomial", float(ut.p_ase(True, wl, G, NF, BWopt)), evalmono(monos["pase_opt"], vals))
                eq("mu_ASE=monomial", float(muase), evalmono(monos["mu_ase"], vals))
            else:
                for i in (0, 1):
                    want = evalmono(monos["thermal_V2"], vals) + evalmono(monos["shot_V2"], {**vals, "mu": float(mu[i])})
                    eq("noise_variances=thermal+shot-monomials", float(S[i]), want)
            pavg = 10 ** (P / 10 - 3)
            # the G argument is used by average_voltages even without amplification (as coded); levels are r*g*P*R_L + mu_ASE
            eq("average-power-is-P_avg", (float(mu[1]) + (Mm - 1) * float(mu[0])) / Mm - float(muase), evalmono(monos["level"], {**vals, "P": pavg}))
            if ER == np.inf:
                eq("levels=monomial", float(mu[1]) - float(muase), evalmono(monos["level"], {**vals, "P": pavg * Mm}))
            # utils.theory_BER = error integral on the model's levels and variances (through the ook/ppm formulas)
            f0 = C0 / wl
            if amp or abs(G) < 1e-12 or True:
                Gt = G if amp else 0.0
                mu_t, muase_t = ut.average_voltages(P, mod, M, ER, amp, wl, Gt, NF, BWopt, r_, RL)
                S_t = ut.noise_variances(P, mod, M, ER, amp, wl, Gt, NF, BWopt, r_, BWel, RL, Tk, NFel)
                d = float(mu_t[1] - mu_t[0])
                s0_, s1_ = float(S_t[0]) ** 0.5, float(S_t[1]) ** 0.5
                if mod == "ook":
                    ref = float(ook.theory_BER(d, s0_, s1_))
                    got = float(ut.theory_BER(P, "ook", ER=ER, amplify=amp, f0=f0, G=Gt, NF=NF, BW_opt=BWopt, r=r_, BW_el=BWel, R_L=RL, T=Tk, NF_el=NFel))
                else:
                    dec = rnd.choice(["soft", "hard"])
                    ref = float(ppm.theory_BER(d, s0_, s1_, M, dec))
                    got = float(ut.theory_BER(P, "ppm", M, dec, ER=ER, amplify=amp, f0=f0, G=Gt, NF=NF, BW_opt=BWopt, r=r_, BW_el=BWel, R_L=RL, T=Tk, NF_el=NFel))
                    dec2 = "hard" if dec == "soft" else "soft"          # the other decision rule at the same operating point
                    ref2 = float(ppm.theory_BER(d, s0_, s1_, M, dec2))
                    got2 = float(ut.theory_BER(P, "ppm", M, dec2, ER=ER, amplify=amp, f0=f0, G=Gt, NF=NF, BW_opt=BWopt, r=r_, BW_el=BWel, R_L=RL, T=Tk, NF_el=NFel))
                    if max(ref2, got2) > 1e-8:
                        eq("utils.theory_BER=error-integral-on-model-levels-and-variances", got2 + 1e-9, ref2 + 1e-9, tol=6000000)
                if max(ref, got) > 1e-8:        # deeper in the tail the 1000- and 5000-point threshold grids differ by more than a few %
                    eq("utils.theory_BER=error-integral-on-model-levels-and-variances", got + 1e-9, ref + 1e-9, tol=6000000)
            # decreasing with received power
            Ps = [P - 6, P - 3, P, min(P + 3, 0)]
            seq = [float(ut.theory_BER(p_, mod, M, "soft" if mod == "ppm" else None, ER=ER, amplify=amp, f0=f0, G=G if amp else None, NF=NF if amp else None,
                                       BW_opt=BWopt if amp else None, r=r_, BW_el=BWel, R_L=RL, T=Tk)) for p_ in Ps]
            if min(seq) > 1e-200:
                events.append({"kind": "mono", "name": "BER-decreases-with-received-power", "seq": [sci(x + (1e-3 if mod == "ppm" else 0)) for x in seq], "slack": 3000 if mod == "ppm" else 2})
                meta.append(("mono", "power"))
        ctx.case(("receiver", mod, Mm, amp, ER == np.inf), {"P_avg": P, "mod": mod, "M": M, "ER": ER, "amplify": amp})
    # shot-noise dominated receivers (cold, high load resistance): the mutual-consistency equality where the shot term decides the BER;
    # with an electrical noise figure the reference variances are the statement's own (Fn on the thermal term only, as in PD)
    for it in range(6 if T else 3):
        Tk, RL, BWel, r_ = [1.0, 4.0, 2.0][it % 3], [1e4, 3e3, 1e4][it % 3], [1e10, 5e9, 2e10][it % 3], 1.0
        for P in range(-62, -24, 2):
            for mod, M in (("ook", 2), ("ppm", 4)):
                for NFel in (0.0, 6.0):
                    mu_t, _ = ut.average_voltages(P, mod, M, np.inf, False, 1550e-9, 0.0, 5.0, 1e12, r_, RL)
                    vals = {"kB": KB, "T": Tk, "Fn": 10 ** (NFel / 10), "B": BWel, "R": RL, "e": QE}
                    S_t = [evalmono(monos["thermal_V2"], vals) + evalmono(monos["shot_V2"], {**vals, "mu": float(mu_t[i])}) for i in (0, 1)]
                    d, s0_, s1_ = float(mu_t[1] - mu_t[0]), float(S_t[0]) ** 0.5, float(S_t[1]) ** 0.5
                    ref = float(ook.theory_BER(d, s0_, s1_)) if mod == "ook" else float(ppm.theory_BER(d, s0_, s1_, M, "hard"))
                    if 1e-8 < ref < 1e-2:
                        got = float(ut.theory_BER(P, mod, M, "hard" if mod == "ppm" else None, ER=np.inf, amplify=False, r=r_, BW_el=BWel, R_L=RL, T=Tk, NF_el=NFel))
                        eq("utils.theory_BER=error-integral-on-model-levels-and-variances", got, ref, tol=6000000)
                        ctx.case(("receiver-shot-dominated", mod, it % 3, NFel > 0), {"P_avg": P, "T": Tk, "R_L": RL, "NF_el": NFel, "shot/thermal variance": float(S_t[1] / max(S_t[0], 1e-300))})
    # agreement with the device models: the standard deviations PD hands to the generator for its thermal and shot currents are the model's
    # (shot 2e*mu*B*R_L with mu = R_L*r*(P_sig + P_ASE) summed over both polarisations - what an EDFA output carries; thermal 4kB*T*B*R_L*Fn)
    from ..rng_tap import tap
    from opticomlib.devices import PD as _PD, EDFA as _EDFA
    from opticomlib.typing import gv as _gv, optical_signal as _os
    for it in range(12 if T else 6):
        with warnings.catch_warnings():
            warnings.simplefilter("ignore")
            _gv(sps=8, R=10e9)
        rs = np.random.RandomState(7000 + it)
        npol_, n_ = 1 + it % 2, 256
        sig_ = (rs.randn(npol_, n_) + 1j * rs.randn(npol_, n_)) * 3e-3 + 2e-2
        nz_ = (rs.randn(npol_, n_) + 1j * rs.randn(npol_, n_)) * [3e-3, 1e-2, 3e-4][it % 3]
        x_ = _os(sig_ if npol_ == 2 else sig_[0], nz_ if npol_ == 2 else nz_[0])
        if it % 3 == 2:
            np.random.seed(it)
            x_ = _EDFA(_os(sig_[0] * 0.1), 20.0, 5.0)             # a two-polarisation field straight out of an amplifier
        r_, Tk, RL, Fn_, idark = [1.0, 0.7][it % 2], 300.0, 50.0, [0.0, 3.0][it % 2], 1e-8
        np.random.seed(50 + it)
        with tap() as tp, deadline(60):
            _PD(x_, 5e9, r_, Tk, RL, "thermal-shot", idark, Fn_)
        scales = sorted(sc_ for (u_, sc_) in tp.rows() if sc_ is not None and sc_ != 1.0)
        B_ = _gv.fs / 2
        P_ = float(np.sum(np.mean(np.abs(np.atleast_2d(x_.signal)) ** 2, axis=-1)) + np.sum(np.mean(np.abs(np.atleast_2d(x_.noise)) ** 2, axis=-1)))
        want_sh = math.sqrt(2 * QE * (r_ * P_ + idark) * B_)
        want_th = math.sqrt(4 * KB * Tk * 10 ** (Fn_ / 10) * B_ / RL)
        if len(scales) == 2:
            got_sh, got_th = (scales[0], scales[1]) if abs(math.log(scales[0] / want_sh)) < abs(math.log(scales[1] / want_sh)) else (scales[1], scales[0])
            eq("noise_variances=thermal+shot-monomials", got_sh ** 2 * RL ** 2, want_sh ** 2 * RL ** 2, tol=2000)
            eq("noise_variances=thermal+shot-monomials", got_th ** 2 * RL ** 2, want_th ** 2 * RL ** 2, tol=2000)
        ctx.case(("pd-agreement", npol_, it % 3), {"PD draws": {"std requested": scales, "model": [want_sh, want_th]}})
    _gv.clean()
    # the statement puts the electrical noise figure on the thermal term only (as PD does): NF_el != 0
    for it in range(6):
        P, RL, Tk, BWel, NFel = -30.0 + it, 50.0, 300.0, 5e9, 3.0 + it
        mu, _ = ut.average_voltages(P, "ook", None, np.inf, False, 1550e-9, 0.0, 5.0, 1e11, 1.0, RL)
        S = ut.noise_variances(P, "ook", None, np.inf, False, 1550e-9, 0.0, 5.0, 1e11, 1.0, BWel, RL, Tk, NFel)
        vals = {"kB": KB, "T": Tk, "Fn": 10 ** (NFel / 10), "B": BWel, "R": RL, "e": QE}
        for i in (0, 1):
            want = evalmono(monos["thermal_V2"], vals) + evalmono(monos["shot_V2"], {**vals, "mu": float(mu[i])})
            events.append({"kind": "eq", "name": "noise_variances=thermal+shot-monomials", "a": sci(float(S[i])), "b": sci(want), "tol": 200})
            meta.append(("eq", "noise_variances:NF_el-on-thermal-only"))
        ctx.case(("receiver-NFel", it))
    ctx.assumptions.append("the analytic part (erfc, quad) cannot be derived in TLA+: the clauses are contracts on lattice points (Q table from mpmath), "
                           "orderings and equalities between API programs, judged by BerTrace.tla with 8-digit Sci numbers")
    for idx, clause in ctx.validate("BerTrace", events, note="BER/threshold/receiver-model contract"):
        m = meta[idx - 1]
        key = f"{m[0]}:{m[1]}" if m[1].startswith("noise_variances:") else f"{m[0]}:{clause}"
        ctx.violation(key, f"{m} rejected ({clause}): {events[idx - 1]}", {"event": events[idx - 1], "case": m})
