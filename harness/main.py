import sys, os, importlib, subprocess, glob, json, traceback
from .core import Ctx, MachineryError, VERIF, SPEC, TLA_CP

LEVELS = {}  # filled from drivers: LEVEL attribute


def setup():
    rc = 0
    mods = sorted(glob.glob(os.path.join(SPEC, "*.tla")))
    for m in mods:
        p = subprocess.run(["java", "-cp", TLA_CP, "tla2sany.SANY", os.path.basename(m)], cwd=SPEC,
                           stdout=subprocess.PIPE, stderr=subprocess.STDOUT, text=True)
        bad = ("*** Errors" in p.stdout) or ("Fatal" in p.stdout) or p.returncode != 0
        print(("FAIL " if bad else "ok   ") + os.path.basename(m))
        if bad:
            print(p.stdout[-2000:])
            rc = 2
    import compileall
    if not compileall.compile_dir(os.path.join(VERIF, "harness"), quiet=1):
        rc = 2
    for f in glob.glob(os.path.join(SPEC, "*.toolbox")) + glob.glob(os.path.join(SPEC, "states")):
        pass
    return rc


def main(argv):
    if not argv or argv[0] in ("-h", "--help"):
        print(__doc__ or "usage: ./check Cxx [quick|thorough] [--replay PATH] | --setup")
        return 2
    if argv[0] == "--setup":
        return setup()
    pid = argv[0]
    tier = os.environ.get("VERIF_TIER", "quick")
    replay = None
    i = 1
    while i < len(argv):
        a = argv[i]
        if a in ("quick", "thorough"):
            tier = a
        elif a == "--tier":
            i += 1
            tier = argv[i]
        elif a == "--replay":
            i += 1
            replay = argv[i]
        i += 1
    seed = int(os.environ.get("VERIF_SEED", "20260926")) % (2**31 - 1)
    try:
        drv = importlib.import_module(f"harness.drivers.{pid}")
    except ModuleNotFoundError as e:
        print(f"no driver for {pid}: {e}")
        return 2
    ctx = Ctx(pid, tier, seed, getattr(drv, "LEVEL", "model_checking"), replay)
    try:
        drv.run(ctx)
        rc = ctx.finish()
        if replay:
            # --replay PATH: the check is deterministic for a given seed/tier, so the stored case is re-executed as part of the
            # same run; report whether the recorded violation (same key) occurs again on the current tree
            try:
                rec = json.load(open(replay))
                keys = [k for k, _, _ in ctx.violations] + [k for k, _ in ctx.known_hit]
                again = rec.get("key") in keys
                print(f"REPLAY {'REPRODUCED' if again else 'NOT-REPRODUCED'} key={rec.get('key')} detail={str(rec.get('detail'))[:200]}")
                return 1 if again else 0
            except Exception as ex:
                print(f"cannot read replay file {replay}: {ex}")
                return 2
        return rc
    except MachineryError as e:
        print(f"MACHINERY-ERROR property={pid}: {e}")
        return 2
    except Exception as e:
        # An exception raised INSIDE the library (or a call that exceeded its deadline) on an input of the property's
        # domain is a property violation, not a harness failure: on the unchanged tree no such exception occurs.
        from .core import REPO, Deadline
        tb = traceback.extract_tb(e.__traceback__)
        inside = [f for f in tb if os.path.abspath(f.filename).startswith(os.path.abspath(REPO) + os.sep)]
        if inside or isinstance(e, Deadline):
            where = inside[-1] if inside else tb[-1]
            text = "".join(traceback.format_exception(type(e), e, e.__traceback__))
            print(text[-3000:])
            ctx.violation(f"unexpected-exception:{type(e).__name__}:{os.path.basename(where.filename)}:{where.name}",
                          f"the implementation raised {type(e).__name__}: {e} (or hung) on an in-domain call", {"traceback": text})
            return ctx.finish()
        traceback.print_exc()
        print(f"MACHINERY-ERROR property={pid}: unexpected exception in driver")
        return 2


if __name__ == "__main__":
    sys.exit(main(sys.argv[1:]))
