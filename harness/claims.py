"""Single source for MANIFEST.json: `python3 -m harness.claims` rewrites it from CLAIMS (run in /verif)."""
import json, os, subprocess

HOOK_COMMITS = []   # filled when hook commits exist

CLAIMS = {
 "C04": dict(level="model_checking",
   text="TLC walks the complete state cycle of the generator for orders 7-20 (23 in thorough) and proves period 2^n-1, balance and agreement of three register encodings; PRBS31 is covered by the order of the companion matrix over GF(2) computed by TLC (M^(2^31-1)=I, 2^31-1 prime) with negative controls; resume/recurrence model-checked for all registers of order 7. The real PRBS is bound by validating with TLC one-clock events for every non-zero state of orders 7-15 (20 in thorough), random calls/resumed chains for all seven orders and whole periods.",
   note="trusted: TLC, the JSON bit-list conversion of integers in the harness; PRBS31 state space is not enumerated (algebraic argument + sampled calls)",
   technique="TLA+ state-machine spec + TLC exhaustive cycle enumeration + TLC trace validation of recorded calls"),
 "C12": dict(level="model_checking",
   text="PPM.tla transcribes encoder, decoder, the HDD repair relation and the SDD arg-max; TLC explores every bit string <= 12 for M in 2..16, every corruption of <= 8 slots and every slot pattern <= 12 (16 thorough) slots with every allowed outcome of the random repair, checking one-hot, position=value, round trip and identity on codewords. The real functions are run on the same exhaustive domains (all container forms, several numpy seeds) plus long random words with M up to 256 and SDD on integer DAC waveforms; every recorded call is validated by TLC against the same operators (HDD as refinement of nondeterminism).",
   note="trusted: TLC, JSON encoding of bit lists; SDD waveforms restricted to integer-valued NRZ/RZ samples so that slot sums are exact in TLC (Gaussian shape covered through C03's link check)",
   technique="TLA+ transcription + TLC exhaustive model checking + TLC trace validation (nondeterminism refinement for HDD)"),
 "C15": dict(level="model_checking",
   text="BinSeq.tla models the heap of sequences with one action per public entry point (constructor in six container forms over a token alphabet incl. 2, -1, 0.5 and letters, 2-D data, + with objects and literals in both orders, ~, every slice form with CPython semantics from PySlice.tla, integer index); TLC explores every call on every pool object (all strings <= 6 bits, <= 8 in thorough), checks Valid, the algebraic laws and AppendOnly (operands never change), and every distinct TLC state is replayed on the real class with write-protected operands (value, dtype, ndim, len/ones/zeros, exception verdict, aliasing). All 8190 strings <= 12 bits, long random strings, random depth-6 programs and >/< comparisons of integer-valued signals are executed on the real code and validated by TLC (BinSeqTrace).",
   note="trusted: TLC, JSON transport; ndarray literals only on the right of + (numpy dispatch makes ndarray+object element-wise); comparisons checked value-wise only when signal+noise and threshold are non-negative, as the statement says",
   technique="TLA+ heap state machine + TLC exhaustive model checking + replay of every TLC state on the class + TLC trace validation"),
 "C01": dict(level="model_checking",
   text="Signals.tla models the heap of electrical/optical signal objects (rows of Gaussian integers, optional noise) with one action per public entry point: +,-,* and their reflected forms with object operands and nine literal kinds under numpy broadcasting, every slice form (CPython semantics), int index, copy(n), domain transform; SignalsCtor.tla is the constructor decision table (12 signal forms x n_pol x noise forms). TLC checks the shape/noise contract, class/n_pol/length preservation, the total-field law, noise-iff, ValueError exactly on length mismatch, exact slicing and AppendOnly on every call over all ordered pairs of 6+7 representative objects (~80k states), and every distinct TLC state is replayed on the real classes with write-protected int/float/complex operands (values, layout, exception verdict, operand digests, np.shares_memory). Random depth-6 programs on lengths up to 4099 are validated event by event by TLC (SignalsTrace).",
   note="trusted: TLC, JSON transport of integer sample values; products and transforms are constrained in shape/class/noise presence only (as the statement); operands of different polarisation counts and a length-1 left operand with a longer right operand are not constrained; ndarray/numpy-scalar operands only on the right",
   technique="TLA+ heap state machine + TLC exhaustive model checking + replay of every TLC state + TLC trace validation of random programs"),
 "C14": dict(level="model_checking",
   text="GlobalGrid.tla is the gv singleton as a state machine (Call with any subset of sps/R/fs/wavelength/N/custom keywords following the branch structure of __call__, Clean); TLC explores its complete reachable state space (finite: ~2.4k states, 1M transitions; wider domains in thorough) and proves GridConsistent, CleanRestores, CustomPersists, NSticky for histories of any length. Every history of length <= 2 produced by TLC is replayed on the real singleton with all fields of the statement compared (sps,R,fs,dt,wavelength,f0,N,len(t),len(w),w values,dw,custom), and long random histories recorded on the real singleton are accepted/rejected by the stateful trace spec GlobalGridTrace (design actions + logged primed state). Purity: World.tla/WorldTrace.tla monitor recorded histories of ~36 public device/codec/DSP/utility calls interleaved with np.random.seed and gv reconfigurations: gv and argument digests unchanged, RNG untouched by deterministic functions, results a function of (name,args,gv[,RNG state]) via a memo, no aliasing.",
   note="trusted: TLC, sha1 digests interned to integers; rates restricted to commensurate values (the statement's domain); execution_time, warnings filter and tic/toc stack excluded; world histories sample call orders (3x110 events quick, 12x250 thorough) - they are not exhaustive",
   technique="TLA+ state machine + TLC complete state-space exploration + replay of TLC histories + stateful TLC trace validation"),
 "C20": dict(level="model_checking",
   text="PPG.tla specifies the driver against a simulated instrument in integer instrument units (channel normalisation/clipping, clamp-and-warn per limit, nearest PRBS order, IEEE-488.2 block splitting at consecutive addresses, paged pattern memory); PPGModel.tla explores every setter x 7 request classes per limit x 12 channel selections (scalar and per-channel lists) and all histories of <= 2 (3) set_data/get_data operations on a small memory (Chunk=4, MaxMem=12) with EveryCmdInRange, ChunkingCorrect and RoundTrip; Sync.tla proves that exact cross-correlation finds every delay for every unique-peak pattern of <= 5 slots. Every TLC state is executed on the real PPG3204 attached to a fake VISA session (instance constants shadowed to the model's), the SCPI strings are parsed and the whole log is judged by the stateful monitor PPGTrace.tla, which keeps the instrument memory; random histories with the real constants (1024-bit blocks, 2^21 memory, data lengths to 10^4 across block boundaries, requests over several decades) and SYNC runs (PRBS7/9, every delay class, noise up to 10 %) are judged by the same monitor; dry-run mode (printed commands) included.",
   note="trusted: TLC; the fake instrument (documented IEEE-488.2 block format) and the SCPI parser of the harness; real hardware is out of scope; start addresses are taken inside 1..2^21 (the statement lists no limit for them)",
   technique="TLA+ state machine + TLC exhaustive model checking + replay of every TLC state on the driver + stateful TLC trace monitor"),
 "C18": dict(level="model_checking",
   text="Quantiser.tla states shortest_int as a relation (a pair of order statistics lag=floor(p*len/100) apart of minimal width - any minimiser) and ADC as code within half a step of the ideal value for in-range samples / end code outside, relative to SOME minimal 99.99 % interval, all in exact integer arithmetic; QuantiserModel.tla explores every sorted data set of <= 6 (7) values from 0..4 (all tie patterns) x 9 percentages x n in 1..3 with every admissible interval and rounding choice. The real functions are run on the same exhaustive domain (shuffled, three power-of-two scales incl. 2^-36) and on Gaussian/uniform/sinusoidal/quantised records up to 2^15+3 (2^17 thorough) samples with injected outliers, n up to 12, both otype values, ndarray/signal/signal+noise inputs; every call is validated by TLC (QuantiserTrace), which itself evaluates minimality over the whole sorted record.",
   note="trusted: TLC, JSON transport; data are integer-valued times a power of two so that doubles are exact; record lengths where p*len/100 is an exact integer with p=99.99 are avoided (float floor ambiguity); constant records (hi=lo) are outside the statement",
   technique="TLA+ relational spec + TLC exhaustive model checking + TLC trace validation"),
 "C05": dict(level="model_checking",
   text="DacSampler.tla defines the NRZ/RZ waveform sample by sample, SAMPLER as strided selection of signal and noise, the decision against bias+Vout/2 and the single-fault argument verdict table; DacModel.tla explores every bit string <= 6 (7) bits x sps 2..9 x NRZ/RZ x integer amplitudes of both signs x every sampling instant with LenExact, SlotExact, SamplerInverts. The real DAC/SAMPLER are run on the same exhaustive domain in five container forms and on random runs with sps 2..128 (odd included), dyadic Vout/bias of both signs, noise-carrying signals and every instant; all waveforms and sampled values are validated exactly by TLC (DacTrace). The Gaussian clause is a contract on the three observables of the statement (peak position, peak level, half-maximum width) plus SAMPLER(sps//2) decision, measured by the harness on an isolated 1 for sps 8..128, T in [sps/2, 2 sps], m 1..4 and judged by TLC.",
   note="trusted: TLC; amplitudes are multiples of 1/64 V (exact in doubles and as TLC integers); the Gaussian pulse shape itself is not modelled - only the three observables the statement names; verdicts are tested one fault at a time",
   technique="TLA+ transcription + TLC exhaustive model checking + TLC trace validation (exact values; contract for the Gaussian clause)"),
 "C19": dict(level="model_checking",
   text="Text.tla specifies dec2bin, the si decade ladder (exact integer relation between x=m*10^e, the printed mantissa and the prefix power, and the [1,1000) mantissa range) and the text form of int/float/complex 1-D/2-D arrays with the bit-pattern and dtype rules; TextModel.tla enumerates every (v,d) with d<=12 (16) and every array of <= 2x2 (2x3) entries over a 10-value alphabet x 3 separator styles x 5 dtypes (~80k states), and every rendered text is parsed by the real str2array and compared with the spec's expectation (values, shape, kind). dec2bin for every (v,d), si over all 30 decades x mantissas x precisions, the Q table (mpmath constants in Sci.tla), inverse pairs/homomorphisms of db/dbm/idb/idbm over 30 decades and +-300 dB on scalars and arrays, Q symmetry/monotonicity, rcos range/evenness/half-point/cut-off, the gaus integral and the negative-input verdicts are recorded from the real code and judged by TLC (TextTrace).",
   note="trusted: TLC; floating-point observables enter TLC as 8-digit Sci pairs, so identities are decided to ~1e-7 relative (1e-6 for the Riemann sum); the Q table constants come from mpmath (30 digits) and are committed in Sci.tla; a 0/1-only text with rows of unequal digit count is not the text of an array and is skipped",
   technique="TLA+ transcription + TLC exhaustive enumeration replayed on the code + TLC trace validation of numeric identities"),
}


def build():
    props = [json.loads(l) for l in open("/verif/properties.jsonl")]
    have = [p["id"] for p in props if p["id"] in CLAIMS and os.path.exists(f"/verif/harness/drivers/{p['id']}.py")]
    man = {"version": 1, "setup_cmd": "./check --setup",
           "hooks": {"guard": "OPTICOMLIB_VERIF",
                     "enable": "env OPTICOMLIB_VERIF=1 (exported by ./check; the harness imports /repo's working tree directly)",
                     "baseline_off_cmd": "cd /repo && /venv/bin/python -m pytest -ra -q -p no:cacheprovider --timeout=900 --continue-on-collection-errors",
                     "source_commits": HOOK_COMMITS, "add_only": True},
           "engines": [{"name": "tlc+conformance", "path": "check", "serves_properties": have,
                        "kind_free_text": "explicit TLA+ specifications model-checked by TLC; bound to the code by replay of TLC-produced behaviours and by TLC validation of traces recorded from the real code"}],
           "checks": [], "notes": "see DESIGN.md; known_findings.json lists recorded/fixed defects",
           "not_applicable": [{"property_id": p["id"], "reason": "check not built yet (planned, DESIGN.md section 3)"}
                              for p in props if p["id"] not in have]}
    for pid in have:
        c = CLAIMS[pid]
        man["checks"].append({"property_id": pid, "quick_cmd": f"./check {pid} quick", "thorough_cmd": f"./check {pid} thorough",
                              "evidence_file": f"/verif/evidence/{pid}.json", "replay_cmd_template": f"./check {pid} --replay {{path}}",
                              "engine": "tlc+conformance",
                              "level_claimed": {"category": c["level"], "text": c["text"], "design_ref": f"DESIGN.md section 3, {pid}"},
                              "level_note": c["note"], "technique": c["technique"]})
    json.dump(man, open("/verif/MANIFEST.json", "w"), indent=1)
    return have


if __name__ == "__main__":
    print(build())
