"""double -> Sci pair <<mantissa (8 digits), exp10>> used by the contract specifications (generic representation)."""
import math


def sci(x):
    x = float(x)
    if x == 0 or not math.isfinite(x):
        return [0, 0] if x == 0 else [0, 999]
    e = math.floor(math.log10(abs(x)))
    m = round(x / 10.0 ** (e - 7))
    if abs(m) >= 10 ** 8:
        m = round(m / 10)
        e += 1
    if abs(m) < 10 ** 7:
        m = round(x / 10.0 ** (e - 8))
        e -= 1
    return [int(m), int(e - 7)]
