---------------------------- MODULE SignalsTrace ----------------------------
(* C01, binding T: events recorded from random operator programs on the real classes, validated
   with the operators of Signals.tla.  An event is [op, a, b, lit, sl, out, raised]:
   a = left/self object, b = other object (or LitObj built from `lit` rows when blit), sl = slice
   triple or index, out = the result object as observed (shape, values).  *)
EXTENDS SignalsOps, Json, IOUtils
Trace == ndJsonDeserialize(IOEnv.IN_FILE)
Fix(o) == [o EXCEPT !.any = FALSE]
Other(e) == IF e.blit THEN LitObj(e.a.cls, e.lit) ELSE Fix(e.b)
SameShape(x, y) == x.cls = y.cls /\ x.npol = y.npol /\ LenOf(x) = LenOf(y) /\ x.hasnoise = y.hasnoise
Clauses(e) ==
  LET a == Fix(e.a) IN
  IF e.op \in Ops THEN
     LET b == Other(e) IN
     IF ~Compatible(a, b) THEN (IF e.raised THEN {} ELSE {"length-mismatch-accepted"})
     ELSE IF e.raised THEN {"valid-operands-rejected"}
     ELSE LET want == Bin(e.op, a, b)  got == Fix(e.out) IN
          (IF ~ShapeOK(got) THEN {"contract"} ELSE {}) \cup
          (IF ~SameShape(want, got) THEN {"shape-class-noise"} ELSE {}) \cup
          (IF e.op \notin {"mul", "rmul"} /\ ShapeOK(got) /\ SameShape(want, got) /\ Total(got) # Total(want)
             THEN {"total-field"} ELSE {})
  ELSE IF e.op = "slice" THEN
     LET want == SliceObj(a, e.sl[1], e.sl[2], e.sl[3]) IN
     IF LenOf(want) < 1 THEN (IF e.raised THEN {} ELSE {"empty-selection-accepted"})
     ELSE IF e.raised THEN {"valid-slice-rejected"}
     ELSE (IF ~ShapeOK(Fix(e.out)) THEN {"contract"} ELSE {}) \cup (IF Fix(e.out) # want THEN {"slice-exact"} ELSE {})
  ELSE IF e.op = "index" THEN
     (IF e.raised THEN {"index-rejected"} ELSE IF Fix(e.out) # IndexObj(a, e.k) THEN {"index-exact"} ELSE {})
  ELSE IF e.op = "transform" THEN
     (IF e.raised THEN {"transform-rejected"} ELSE
      (IF ~ShapeOK(Fix(e.out)) THEN {"contract"} ELSE {}) \cup (IF ~SameShape(a, Fix(e.out)) THEN {"shape-class-noise"} ELSE {}))
  ELSE {"unknown-op"}
Bad == UNION {{<<i, c>> : c \in Clauses(Trace[i])} : i \in 1..Len(Trace)}
ASSUME JsonSerialize(IOEnv.OUT_FILE, [n |-> Len(Trace), bad |-> Bad])
=============================================================================
