------------------------------- MODULE Signals -------------------------------
(* C01 - electrical_signal / optical_signal as a heap of immutable values.
   An object is [cls, npol, sig, noise, hasnoise]:
     cls  "E" | "O";  npol 1 | 2;  sig = sequence of npol rows, a row = sequence of Gaussian
     integers <<re, im>>;  noise = rows of the same shape when hasnoise, <<>> otherwise.
   One action per public entry point; a rejected call (ValueError) leaves the heap unchanged.
   Values the property does not fix (products, transforms) are `any`: only shape/class/noise
   presence are specified for them. *)
EXTENDS SignalsOps
CONSTANTS MaxHeap, Pool        \* Pool: set of initial heaps (sequences of objects)

VARIABLES heap, last
vars == <<heap, last>>

Ok(op, args)  == [op |-> op, args |-> args, raised |-> FALSE]
Err(op, args) == [op |-> op, args |-> args, raised |-> TRUE]
Push(o, l) == heap' = Append(heap, o) /\ last' = l
Reject(l)  == heap' = heap /\ last' = l

Init == heap \in Pool /\ last = Ok("init", <<>>)

\* a (op) b for two heap objects;  "radd"/"rsub"/"rmul" put heap[j] on the left: heap[j] op heap[i] evaluated by heap[i]
BinObj(op, i, j) ==
  /\ heap[i].cls = heap[j].cls /\ ~heap[i].any /\ ~heap[j].any
  /\ Rows(heap[j]) = Rows(heap[i])           \* objects of different polarisation counts: not fixed by the property
  /\ IF Compatible(heap[i], heap[j]) THEN Push(Bin(op, heap[i], heap[j]), Ok(op, <<i, j>>))
     ELSE Reject(Err(op, <<i, j>>))
\* literal operand: kind, rows of values (1 row, or 2 rows for a nested list given to an optical signal)
LitKinds == {"int", "float", "complex", "npscalar", "list", "tuple", "str", "ndarray", "list2d"}
BinLit(op, i, kind, vals) ==
  /\ ~heap[i].any
  /\ kind \in {"int", "float", "complex", "npscalar"} => Len(vals) = 1 /\ Len(vals[1]) = 1
  /\ kind = "int" => vals[1][1][2] = 0
  /\ kind = "float" => vals[1][1][2] = 0
  \* (numpy scalars and ndarrays are operands like any other, on either side: numpy must defer to the reflected operators)
  /\ kind = "list2d" <=> Len(vals) = 2
  /\ kind = "list2d" => heap[i].cls = "O" /\ Rows(heap[i]) = 2
  /\ LET b == LitObj(heap[i].cls, vals) IN
     IF Compatible(heap[i], b) THEN Push(Bin(op, heap[i], b), Ok(op, <<i, kind, vals>>))
     ELSE Reject(Err(op, <<i, kind, vals>>))
Slice(i, a, b, s) ==
  LET o == SliceObj(heap[i], a, b, s) IN
  /\ ~heap[i].any
  /\ IF LenOf(o) >= 1 THEN Push(o, Ok("slice", <<i, a, b, s>>)) ELSE Reject(Err("slice", <<i, a, b, s>>))
Index(i, k) == ~heap[i].any /\ IndexOK(LenOf(heap[i]), k) /\ Push(IndexObj(heap[i], k), Ok("index", <<i, k>>))
Copy(i, n) ==        \* copy(n) is self[:n]; copy() the whole object
  LET o == SliceObj(heap[i], <<>>, n, <<>>) IN
  /\ ~heap[i].any
  /\ IF LenOf(o) >= 1 THEN Push(o, Ok("copy", <<i, n>>)) ELSE Reject(Err("copy", <<i, n>>))
Transform(i, dom, shift) == ~heap[i].any /\ Push(TransformObj(heap[i]), Ok("transform", <<i, dom, shift>>))

OptInts == {<<>>} \cup {<<v>> : v \in {-2, -1, 0, 1, 2, 4}}
Steps   == {<<>>, <<1>>, <<2>>, <<-1>>}
Vals == {<<0, 0>>, <<1, 0>>, <<-1, 0>>, <<2, 1>>}
LitRows == {<< <<v>> >> : v \in Vals} \cup
           {<< <<<<1, 0>>, <<-1, 0>>, <<2, 1>>>> >>, << <<<<2, 0>>, <<0, 0>>, <<1, 0>>>> >>,
            << <<<<1, 0>>, <<2, 0>>>> >>, << <<<<1, 0>>, <<0, 1>>, <<2, 0>>, <<3, 0>>, <<1, 1>>>> >>,
            << <<<<1, 0>>, <<2, 0>>, <<3, 0>>>>, <<<<0, 1>>, <<1, 0>>, <<0, 0>>>> >>,
            << <<<<5, 0>>>>, <<<<0, 2>>>> >>}
Next ==
  /\ Len(heap) < MaxHeap /\ ~last.raised
  /\ \/ \E op \in Ops, i, j \in 1..Len(heap) : BinObj(op, i, j)
     \/ \E op \in Ops, i \in 1..Len(heap), k \in LitKinds, v \in LitRows : BinLit(op, i, k, v)
     \/ \E i \in 1..Len(heap), a \in OptInts, b \in OptInts, s \in Steps : Slice(i, a, b, s)
     \/ \E i \in 1..Len(heap), k \in -3..2 : Index(i, k)
     \/ \E i \in 1..Len(heap), n \in OptInts : Copy(i, n)
     \/ \E i \in 1..Len(heap), d \in {"t", "w", "f"}, sh \in BOOLEAN : Transform(i, d, sh)
Spec == Init /\ [][Next]_vars

\* ---------------------------------------------------------------- the property
AllShapeOK == \A i \in 1..Len(heap) : ShapeOK(heap[i])
AppendOnly == [][\A i \in 1..Len(heap) : heap'[i] = heap[i]]_vars
New == heap[Len(heap)]
Arg(k) == heap[last.args[k]]
OtherOf == IF Len(last.args) = 2 THEN Arg(2) ELSE LitObj(Arg(1).cls, last.args[3])
ClassKept == (~last.raised /\ last.op # "init") =>
                New.cls = Arg(1).cls /\ New.npol = Arg(1).npol
LenLaw == (~last.raised /\ last.op \in Ops \cup {"transform"}) => LenOf(New) = LenOf(Arg(1))
TotalLaw ==
  (~last.raised /\ last.op \in {"add", "radd", "sub", "rsub"}) =>
     LET a == Total(Arg(1))  b == Total(OtherOf) IN
     /\ Total(New) = (IF last.op \in {"add", "radd"} THEN RowsMap2(CAdd, a, b)
                      ELSE IF last.op = "sub" THEN RowsMap2(CSub, a, b) ELSE RowsNeg(RowsMap2(CSub, a, b)))
     /\ New.hasnoise = (Arg(1).hasnoise \/ OtherOf.hasnoise)
NoiseIffMul == (~last.raised /\ last.op \in {"mul", "rmul"}) => New.hasnoise = (Arg(1).hasnoise \/ OtherOf.hasnoise)
RejectOnlyMismatch ==
  (last.raised /\ last.op \in Ops) => ~(LenOf(Arg(1)) = LenOf(OtherOf) \/ LenOf(OtherOf) = 1)
SliceExact == (~last.raised /\ last.op = "slice") =>
   \A r \in 1..New.npol : /\ New.sig[r] = SliceSeq(Arg(1).sig[r], last.args[2], last.args[3], last.args[4])
                          /\ New.hasnoise = Arg(1).hasnoise
                          /\ (New.hasnoise => New.noise[r] = SliceSeq(Arg(1).noise[r], last.args[2], last.args[3], last.args[4]))
=============================================================================
