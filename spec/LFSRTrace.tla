----------------------------- MODULE LFSRTrace -----------------------------
(* C04, binding T: events recorded from opticomlib.devices.PRBS are validated against LFSR.tla.
   Stateless batch form: every event carries the arguments and the complete result of one call,
   so Bad is a constant-level set.  Event kinds:
     call    [order, given, neg, mag, len, out, state, warned]     one PRBS(..., return_seed=True)
     period  [order, given, neg, mag, out, state]                  len = 2^order-1 from that seed
     step    [order, s, out, s2]                                   integer form, one clock, order <= 23
     verdict [order, lenKind, lenSign, raised]                     argument validation             *)
EXTENDS LFSR, Json, IOUtils
Trace == ndJsonDeserialize(IOEnv.IN_FILE)

Ones(bits) == Cardinality({i \in 1..Len(bits) : bits[i] = 1})

CallClauses(e) ==
  LET n  == e.order
      t  == Taps[n]
      sn == SeedNorm(e.given, e.neg, e.mag, n)
      g  == Gen(sn[1], n, t, e.len)
  IN  (IF Len(e.out) # e.len THEN {"length"} ELSE {}) \cup
      (IF e.out # g[2] THEN {"output-bits"} ELSE {}) \cup
      (IF e.state # g[1] THEN {"returned-state"} ELSE {}) \cup
      (IF e.warned # sn[2] THEN {"zero-seed-warning"} ELSE {})

PeriodClauses(e) ==
  LET n  == e.order
      t  == Taps[n]
      sn == SeedNorm(e.given, e.neg, e.mag, n)
      g  == Gen(sn[1], n, t, Pow2(n) - 1)
  IN  (IF e.out # g[2] THEN {"output-bits"} ELSE {}) \cup
      (IF e.state # sn[1] THEN {"period-returns-to-seed"} ELSE {}) \cup
      (IF Ones(e.out) # Pow2(n - 1) THEN {"balance"} ELSE {})

StepClauses(e) ==
  (IF e.out # OutInt(e.s) THEN {"output-bit"} ELSE {}) \cup
  (IF e.s2 # StepInt(e.s, e.order, Taps[e.order]) THEN {"next-state"} ELSE {})

VerdictClauses(e) == IF e.raised \notin Verdicts(e.order, e.lenKind, e.lenSign) THEN {"verdict"} ELSE {}

Clauses(e) == CASE e.kind = "call" -> CallClauses(e)
                [] e.kind = "period" -> PeriodClauses(e)
                [] e.kind = "step" -> StepClauses(e)
                [] e.kind = "verdict" -> VerdictClauses(e)

Bad == UNION {{<<i, c>> : c \in Clauses(Trace[i])} : i \in 1..Len(Trace)}
ASSUME JsonSerialize(IOEnv.OUT_FILE, [n |-> Len(Trace), bad |-> Bad])
=============================================================================
