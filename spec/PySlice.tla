------------------------------ MODULE PySlice ------------------------------
(* CPython's slice semantics (slice.indices + range walk) on 1-based TLA+ sequences.
   Optional arguments are <<>> (None) or <<v>>.  Used by C01, C05, C15. *)
EXTENDS Integers, Sequences
Opt(x) == Len(x) = 1
Val(x) == x[1]
Indices(n, a, b, s) ==
  LET step  == IF Opt(s) THEN Val(s) ELSE 1
      lower == IF step < 0 THEN -1 ELSE 0
      upper == IF step < 0 THEN n - 1 ELSE n
      Norm(v, dflt) == IF ~Opt(v) THEN dflt
                       ELSE IF Val(v) < 0 THEN (IF Val(v) + n < lower THEN lower ELSE Val(v) + n)
                       ELSE (IF Val(v) > upper THEN upper ELSE Val(v))
  IN << Norm(a, IF step < 0 THEN upper ELSE lower), Norm(b, IF step < 0 THEN lower ELSE upper), step >>
RECURSIVE Walk(_, _, _, _)
Walk(i, stop, step, acc) == IF (step > 0 /\ i >= stop) \/ (step < 0 /\ i <= stop) THEN acc
                            ELSE Walk(i + step, stop, step, Append(acc, i + 1))
\* 1-based positions selected by [a:b:s] on a sequence of length n
Sel(n, a, b, s) == LET t == Indices(n, a, b, s) IN Walk(t[1], t[2], t[3], <<>>)
SliceSeq(x, a, b, s) == LET p == Sel(Len(x), a, b, s) IN [i \in 1..Len(p) |-> x[p[i]]]
\* integer index k (negative from the end); valid iff -n <= k < n
IndexOK(n, k) == k >= -n /\ k < n
IndexPos(n, k) == IF k < 0 THEN n + k + 1 ELSE k + 1
=============================================================================
