---------------------------- MODULE AmplifierTrace ----------------------------
(* C10, binding T.  Every EDFA call is recorded with numpy's RNG tapped, so the ASE realisation is
   known:  ase = out.noise - sqrt(G)*noise_in.  Events:
     call  [npol_in, hasnoise, npol_out, len_ok, sig_ppt, ysig_zero, noise_ppt, blocks, distinct, var_ppm, mean_ok, osnr_ok, statistical]
       sig_ppt    residual of  out.signal = sqrt(G)*in.signal  (rows present), parts per 10^12
       noise_ppt  residual of  out.noise - ase = sqrt(G)*in.noise (rows present; 0 in the empty row)
       blocks     number of recorded unit-variance draw blocks that explain the four ASE quadratures
       distinct   the four quadratures use four different blocks
       var_ppm    |sigma^2_fitted / (Units!AseQuadrature evaluated at the call's parameters) - 1| in ppm
     bw    [ppt]            EDFA(x, BW) = BPF(EDFA(x)) under the same seed; also: the same seeded call after a different gv
                            configuration = the call made by a freshly imported library instance (history independence)
     type  [raised]         non-optical input                                                     *)
EXTENDS Integers, Sequences, TLC, Json, IOUtils
Trace == ndJsonDeserialize(IOEnv.IN_FILE)
Clauses(e) ==
  CASE e.kind = "call" ->
        (IF e.npol_out # 2 \/ ~e.len_ok THEN {"always-two-polarisations-same-length"} ELSE {}) \cup
        (IF e.sig_ppt > 1000 THEN {"gain-on-signal"} ELSE {}) \cup
        (IF ~e.ysig_zero THEN {"y-polarisation-of-1pol-input-carries-signal"} ELSE {}) \cup
        (IF e.noise_ppt > 1000 THEN {"gain-on-incoming-noise"} ELSE {}) \cup
        (IF ~e.statistical /\ (e.blocks # 4 \/ ~e.distinct) THEN {"ase-four-independent-quadratures"} ELSE {}) \cup
        \* fitted variance: exact to rounding when the draws are recognised; six-sigma band of the sample variance otherwise
        (IF e.var_ppm > (IF e.statistical THEN e.band_ppm ELSE 1) THEN {"ase-power"} ELSE {}) \cup
        (IF ~e.osnr_ok THEN {"osnr-improved"} ELSE {})
    [] e.kind = "bw" -> IF e.ppt > 1000000 THEN {"bandwidth-argument-filters-whole-output"} ELSE {}
    [] e.kind = "type" -> IF e.raised # "TypeError" THEN {"non-optical-input-not-rejected"} ELSE {}
Bad == UNION {{<<i, c>> : c \in Clauses(Trace[i])} : i \in 1..Len(Trace)}
ASSUME JsonSerialize(IOEnv.OUT_FILE, [n |-> Len(Trace), bad |-> Bad])
=============================================================================
