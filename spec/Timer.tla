------------------------------- MODULE Timer -------------------------------
(* Supplementary specification (outside the listed properties): the library's tic()/toc() timer, a process-wide stack of
   start times that every device function uses to stamp `execution_time` on its result, and that users call directly.
     Tic          push the current time
     Toc          pop the most recent start time and return the time elapsed since it; on an empty stack: an exception
     DeviceOK     a device call that returns: tic() ... toc() inside - net effect on the stack: none; execution_time >= 0
     DeviceEarly  a device call that raises before its tic(): no effect
     DeviceLate   a device call that raises after its tic() and before its toc(): ONE START TIME IS LEFT ON THE STACK.
                  This is what the code does (a named deviation of the design "calls are balanced"): the next user toc()
                  then pairs with the failed call's tic() instead of the user's own.
   `owner` remembers who pushed each entry so that the pairing properties can be stated. *)
EXTENDS Integers, Sequences, TLC
CONSTANTS MaxDepth, MaxTime, LeakOnError      \* LeakOnError = TRUE: the code as it is; FALSE: the balanced design
VARIABLES stack, owner, now, last
vars == <<stack, owner, now, last>>
Init == stack = <<>> /\ owner = <<>> /\ now = 0 /\ last = [op |-> "init"]
Pass(d) == now' = now + d
Tic == /\ Len(stack) < MaxDepth /\ now < MaxTime
       /\ stack' = Append(stack, now) /\ owner' = Append(owner, "user") /\ Pass(1) /\ last' = [op |-> "tic"]
Toc == /\ now < MaxTime
       /\ IF stack = <<>> THEN UNCHANGED <<stack, owner>> /\ last' = [op |-> "toc", raised |-> TRUE] /\ Pass(0)
          ELSE /\ stack' = SubSeq(stack, 1, Len(stack) - 1) /\ owner' = SubSeq(owner, 1, Len(owner) - 1)
               /\ last' = [op |-> "toc", raised |-> FALSE, elapsed |-> now - stack[Len(stack)], from |-> owner[Len(owner)]]
               /\ Pass(0)
DeviceOK == /\ now < MaxTime /\ \E d \in 0..2 : Pass(d) /\ last' = [op |-> "device", raised |-> FALSE, exec |-> d]
            /\ UNCHANGED <<stack, owner>>
DeviceEarly == now < MaxTime /\ Pass(0) /\ last' = [op |-> "device", raised |-> TRUE, leaked |-> FALSE] /\ UNCHANGED <<stack, owner>>
DeviceLate == /\ now < MaxTime /\ Len(stack) < MaxDepth
              /\ IF LeakOnError THEN stack' = Append(stack, now) /\ owner' = Append(owner, "device") ELSE UNCHANGED <<stack, owner>>
              /\ Pass(1) /\ last' = [op |-> "device", raised |-> TRUE, leaked |-> LeakOnError]
Next == Tic \/ Toc \/ DeviceOK \/ DeviceEarly \/ DeviceLate
Spec == Init /\ [][Next]_vars
\* ---- properties
TypeOK == Len(stack) = Len(owner) /\ Len(stack) <= MaxDepth
Ordered == \A i \in 1..(Len(stack) - 1) : stack[i] <= stack[i + 1]          \* start times are stacked in order
ElapsedNonNegative == (last.op = "toc" /\ ~last.raised) => last.elapsed >= 0
ExecNonNegative == (last.op = "device" /\ ~last.raised) => last.exec >= 0
\* the design property: a user's toc() always pairs with a user's tic().  It holds iff failed calls do not leak.
UserPairing == (last.op = "toc" /\ ~last.raised) => last.from = "user"
=============================================================================
