---------------------------- MODULE ModulatorsTrace ----------------------------
(* C06, bindings E and T: measurements on the real MZM / PM / LASER for off-lattice inputs.
     law     [name, ppt]          relative residual of an equality, parts per 10^12
     bound   [name, ppb]          amount by which an inequality is exceeded (0 if satisfied), parts per 10^9
     ratio   [erdB_milli, measured_milli]   on/off power ratio in milli-dB
     peak    [idx, expected]      LASER spectral peak bin vs round(df*N/fs) (signed bin index)
     verdict [what, raised]       mismatched drive length -> ValueError, matching -> ok               *)
EXTENDS Integers, Sequences, TLC, Json, IOUtils
Trace == ndJsonDeserialize(IOEnv.IN_FILE)
Laws == {"PM(PM(x,a),b)=PM(x,a+b)", "MZM-power-2Vpi-periodic", "MZM-noise-modulated-like-signal", "PM-noise-rotated-like-signal",
         "drive-kinds-agree-MZM", "drive-kinds-agree-PM", "PM-phase-is-pi*u/Vpi", "MZM-transfer-at-lattice-power", "LASER-|E|^2=P", "PM-total-power-unchanged", "MZM(BW)=BPF(MZM)",
         "LASER-field=sqrt(P)*exp(j*2pi*df*t)", "MZM-pol-spelling", "MZM-real-stored-field=complex-stored-field"}
\* phase excursions of 1e-9 .. 1e-5 rad measured through angle(): rounding of the field (1e-16) limits the relative accuracy to about 1e-6
SmallPhaseLaws == {"PM-small-drive-phase"}
\* a drive stored as float32 is processed in float32 (eps 6e-8, times the phase excursion of up to a few hundred rad): 3e-4 relative
SinglePrecisionLaws == {"MZM-single-precision-drive"}
Bounds == {"MZM-passive-per-sample", "MZM-unselected-polarisation-extinguished"}
Clauses(e) ==
  CASE e.kind = "law" -> IF e.name \in SmallPhaseLaws THEN (IF e.ppt > 100000000 THEN {e.name} ELSE {})                     \* 1e-4 relative
                         ELSE IF e.name \in SinglePrecisionLaws THEN (IF e.ppt > 300000000 THEN {e.name} ELSE {})
                         ELSE IF e.name \notin Laws THEN {"unknown-law"} ELSE IF e.ppt > 1000000 THEN {e.name} ELSE {}      \* 1e-6 relative
    [] e.kind = "bound" -> IF e.name \notin Bounds THEN {"unknown-bound"} ELSE IF e.ppb > 1000 THEN {e.name} ELSE {}
    [] e.kind = "ratio" -> IF e.measured - e.erdB > 5 \/ e.erdB - e.measured > 5 THEN {"on-off-ratio-is-ER"} ELSE {}   \* 0.005 dB
    [] e.kind = "peak" -> IF e.idx # e.expected THEN {"LASER-spectral-peak-at-df"} ELSE {}
    [] e.kind = "verdict" -> IF e.raised # e.expected THEN {"drive-length-verdict"} ELSE {}
Bad == UNION {{<<i, c>> : c \in Clauses(Trace[i])} : i \in 1..Len(Trace)}
ASSUME JsonSerialize(IOEnv.OUT_FILE, [n |-> Len(Trace), bad |-> Bad])
=============================================================================
