---------------------------- MODULE SpectralTrace ----------------------------
(* C02, bindings E and T: residuals measured on the real classes for arbitrary lengths, judged here.
     law  [name, ppt]   relative residual in parts per 10^12 (1e-9 allowed: FFT rounding grows like log N) *)
EXTENDS Integers, Sequences, TLC, Json, IOUtils
Trace == ndJsonDeserialize(IOEnv.IN_FILE)
Laws == {"x('w')('t')=x", "x('t')('w')=x", "noise-round-trip", "Parseval", "'f'='w'", "ifftshift(x('w',shift))=x('w')", "fftshift(x('t',shift))=x('t')",
         "x('w',shift)=x('w')[spec-permutation]", "x('t',shift)=x('t')[spec-permutation]", "noise-transformed-like-signal",
         "w()=2pi*k*fs/N", "w(shift)=2pi*k*fs/N", "power=mean|s+n|^2", "x('w')=numpy.fft.fft", "x('t')=numpy.fft.ifft", "exact-layer", "transform-leaves-x-unchanged"}
Clauses(e) == IF e.name \notin Laws THEN {"unknown-law"} ELSE IF e.ppt > 1000 THEN {e.name} ELSE {}
Bad == UNION {{<<i, c>> : c \in Clauses(Trace[i])} : i \in 1..Len(Trace)}
ASSUME JsonSerialize(IOEnv.OUT_FILE, [n |-> Len(Trace), bad |-> Bad])
=============================================================================
