------------------------------ MODULE LFSRLemma ------------------------------
(* C04 - cross-validation of the two arguments used for maximal length: for EVERY trinomial x^n + x^t + 1 with n <= MaxN
   (primitive or not) the cycle of the register through the all-ones state has length 2^n - 1  IF AND ONLY IF  the companion
   matrix M satisfies M^(2^n-1) = I and M^((2^n-1)/q) # I for every prime q | 2^n-1.  The exhaustive walk is what TLC does
   for orders 7..23; the matrix criterion is what covers PRBS31; here TLC checks that they agree wherever both can be run. *)
EXTENDS LFSR, Json, IOUtils
MaxN == 11
\* cycle length through all-ones, integer form
RECURSIVE PeriodFrom(_, _, _, _, _)
PeriodFrom(s, start, n, t, k) == LET s2 == StepInt(s, n, t) IN
                                 IF s2 = start THEN k + 1 ELSE IF k > Pow2(n) THEN 0 ELSE PeriodFrom(s2, start, n, t, k + 1)
Period(n, t) == PeriodFrom(Pow2(n) - 1, Pow2(n) - 1, n, t, 0)
\* matrix power by square and multiply (maps as [0..n-1 -> SUBSET 0..n-1])
IdN(n) == [i \in 0..(n - 1) |-> {i}]
MulN(A, B, n) == TLCEval([i \in 0..(n - 1) |-> XorAll(B[i], A)])        \* TLCEval: force the (otherwise lazy) function value
RECURSIVE PowN(_, _, _)
PowN(A, e, n) == IF e = 0 THEN IdN(n) ELSE LET h == PowN(MulN(A, A, n), e \div 2, n) IN IF e % 2 = 1 THEN MulN(h, A, n) ELSE h
PrimeDivisors(m) == {q \in 2..m : m % q = 0 /\ \A d \in 2..(q - 1) : q % d # 0}
MaxOrder(n, t) == LET M == StepMatrix(n, t)  m == Pow2(n) - 1 IN
                  PowN(M, m, n) = IdN(n) /\ \A q \in PrimeDivisors(m) : PowN(M, m \div q, n) # IdN(n)
Trinomials == {<<n, t>> \in (2..MaxN) \X (1..MaxN) : t < n}
Agree(p) == (Period(p[1], p[2]) = Pow2(p[1]) - 1) <=> MaxOrder(p[1], p[2])
ASSUME \A p \in Trinomials : Agree(p)
ASSUME JsonSerialize(IOEnv.OUT_FILE, [checked |-> Cardinality(Trinomials),
                                      maximal |-> {p \in Trinomials : MaxOrder(p[1], p[2])}])
=============================================================================
