------------------------------ MODULE Quantiser ------------------------------
(* C18 - shortest_int and ADC on integer-valued data (exact arithmetic).
   `s` is the data sorted ascending (a sequence of integers).  A covering interval is a pair of
   order statistics lag = floor(p*len/100) apart; shortest_int must return one of minimal width
   (any minimiser: the property fixes minimality, not the tie-break).
   ADC(x, n): full scale = a minimal 99.99 % interval [lo, hi]; code(x) is an integer within half a
   step of (x-lo)*(2^n-1)/(hi-lo) for in-range samples, the end code for samples outside. *)
EXTENDS Integers, Sequences, FiniteSets, TLC
RECURSIVE Pow2(_)
Pow2(k) == IF k = 0 THEN 1 ELSE 2 * Pow2(k - 1)
Abs(x) == IF x < 0 THEN -x ELSE x
\* percentage as a rational pnum/pden
Lag(len, pnum, pden) == (len * pnum) \div (100 * pden)
Width(s, i, lag) == s[i + lag] - s[i]
Starts(s, lag) == 1..(Len(s) - lag)
IsMinimal(s, lag, w) == \A j \in Starts(s, lag) : Width(s, j, lag) >= w
MinStarts(s, lag) == {i \in Starts(s, lag) : IsMinimal(s, lag, Width(s, i, lag))}
\* verdict on a returned pair (lo, hi)
IsOrderStatPair(s, lag, lo, hi) == \E i \in Starts(s, lag) : s[i] = lo /\ s[i + lag] = hi
ShortestOK(s, lag, lo, hi) == lo <= hi /\ IsOrderStatPair(s, lag, lo, hi) /\ IsMinimal(s, lag, hi - lo)
Covers(s, lo, hi) == Cardinality({i \in 1..Len(s) : s[i] >= lo /\ s[i] <= hi})

\* ---- ADC.  Outputs are given as codes (otype 'n') or as volts scaled by (2^n-1) (otype 'v'):
\*      v*(2^n-1) = code*(hi-lo) + lo*(2^n-1)
Top(n) == Pow2(n) - 1
CodeOK(x, c, lo, hi, n) ==
  /\ c \in 0..Top(n)
  /\ IF x < lo THEN c = 0 ELSE IF x > hi THEN c = Top(n)
     ELSE 2 * Abs(c * (hi - lo) - (x - lo) * Top(n)) <= (hi - lo)          \* within half a quantisation step
AdcCodesOK(x, codes, lo, hi, n) == Len(codes) = Len(x) /\ \A i \in 1..Len(x) : CodeOK(x[i], codes[i], lo, hi, n)
\* decode a scaled-volt output into its code for full scale [lo, hi] (or -1 when it is not on the lattice)
CodeOfVolt(y, lo, hi, n) == IF (y - lo * Top(n)) % (hi - lo) = 0 THEN (y - lo * Top(n)) \div (hi - lo) ELSE -1
AdcOK(x, s, out, n, otype) ==            \* out consistent with SOME minimal 99.99 % interval of the data
  LET lag == Lag(Len(s), 9999, 100) IN
  \E i \in MinStarts(s, lag) :
     LET lo == s[i]  hi == s[i + lag] IN
     /\ hi > lo
     /\ LET codes == IF otype = "n" THEN out ELSE [k \in 1..Len(out) |-> CodeOfVolt(out[k], lo, hi, n)] IN
        AdcCodesOK(x, codes, lo, hi, n)
DistinctOK(out, n) == Cardinality({out[k] : k \in 1..Len(out)}) <= Pow2(n)
=============================================================================
