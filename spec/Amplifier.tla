------------------------------- MODULE Amplifier -------------------------------
(* C10 - EDFA on the gain lattice G in {0, 20, 40} dB (amplitude gain g = 1, 10, 100 exactly).
   Input: 1 or 2 polarisations of Gaussian integers, optional noise.  Output is always two
   polarisations:  sig' = g*sig in the polarisations present (y empty for a 1-pol input),
                   noise' = g*noise_in (same rows) + ase,  ase = a fresh draw supplied by the environment.
   The ASE draw is four independent real blocks (x-re, x-im, y-re, y-im), each of variance
   Units!AseQuadrature; in the model the environment picks small integer blocks. *)
EXTENDS Arith, Units, Json
CONSTANTS MaxLen
VARIABLES sig, noise, hasnoise, g, ase, outS, outN
vars == <<sig, noise, hasnoise, g, ase, outS, outN>>
Vals == {<<1, 0>>, <<0, 0>>, <<-2, 1>>}        \* zero samples included: an empty polarisation of a 2-pol input stays a polarisation
Rows(n) == [1..n -> Vals]
None == <<>>
Gains == {1, 10, 100}
Init == /\ sig \in UNION {[1..p -> Rows(n)] : p \in {1, 2}, n \in 1..MaxLen}
        /\ hasnoise \in BOOLEAN
        /\ noise = (IF hasnoise THEN [r \in 1..Len(sig) |-> [i \in 1..Len(sig[1]) |-> <<1 - (i % 2), r>>]] ELSE None)
        /\ g \in Gains /\ ase = None /\ outS = None /\ outN = None
ScaleRows(k, f) == [r \in 1..Len(f) |-> [i \in 1..Len(f[r]) |-> CScale(k, f[r][i])]]
Zero(n) == [i \in 1..n |-> CZero]
TwoPol(f) == IF Len(f) = 2 THEN f ELSE <<f[1], Zero(Len(f[1]))>>
AddRows(a, b) == [r \in 1..2 |-> [i \in 1..Len(a[r]) |-> CAdd(a[r][i], b[r][i])]]
Amplify == /\ outS = None
           /\ \E a \in [1..2 -> [1..Len(sig[1]) -> {<<0, 0>>, <<1, -1>>}]] :
                /\ ase' = a
                /\ outS' = TwoPol(ScaleRows(g, sig))
                /\ outN' = IF hasnoise THEN AddRows(TwoPol(ScaleRows(g, noise)), a) ELSE a
           /\ UNCHANGED <<sig, noise, hasnoise, g>>
Next == Amplify
Spec == Init /\ [][Next]_vars
Done == outS # None
AlwaysTwoPol == Done => Len(outS) = 2 /\ Len(outN) = 2 /\ Len(outS[1]) = Len(sig[1]) /\ Len(outN[2]) = Len(sig[1])
GainOnSignal == Done => /\ outS[1] = ScaleRows(g, sig)[1]
                        /\ outS[2] = (IF Len(sig) = 2 THEN ScaleRows(g, sig)[2] ELSE Zero(Len(sig[1])))
GainOnNoise == Done => \A r \in 1..2 : \A i \in 1..Len(sig[1]) :
   CSub(outN[r][i], ase[r][i]) = (IF hasnoise /\ r <= Len(sig) THEN CScale(g, noise[r][i]) ELSE CZero)
\* optical SNR never improves:  g^2 S / (g^2 N + A) <= S / N   (cross-multiplied, N > 0, A = ASE energy >= 0)
RECURSIVE En(_, _)
En(row, i) == IF i > Len(row) THEN 0 ELSE CNorm2(row[i]) + En(row, i + 1)
EnRows(f) == IF Len(f) = 1 THEN En(f[1], 1) ELSE En(f[1], 1) + En(f[2], 1)
OSNRNeverImproves == (Done /\ hasnoise) =>
   LET S == EnRows(sig)  N == EnRows(noise)  A == EnRows(ase) IN g * g * S * N <= S * (g * g * N + A)
Emit == Done => PrintT(<<"EV", ToJson([sig |-> sig, noise |-> noise, hasnoise |-> hasnoise, g |-> g])>>)
=============================================================================
