---------------------------- MODULE BinSeqTrace ----------------------------
(* C15, binding T: recorded binary_sequence / comparison calls validated with the operators of BinSeq.tla.
     un     [bits, inv, len, ones, zeros, inv2]   ~a, len, ones, zeros, ~~a
     ctor   [bits, out]                            constructor round trip through a container form
     cat    [a, b, out, rout]                      a + b  and  (literal b) + a
     sl     [a, s, out]                            a[lo:hi:step], s = <<lo, hi, step>> each <<>> or <<v>>
     cmp    [op, sig, noise, thr, out]             electrical_signal >/< threshold, integer-valued data
     cmplen [n, m, raised, out]                    signal of n samples against a threshold of m values
     cmpany [n, out]                               any signal (complex, negative): shape/alphabet only   *)
EXTENDS PySlice, FiniteSets, TLC, Json, IOUtils
Ones(b)  == Cardinality({i \in 1..Len(b) : b[i] = 1})
Zeros(b) == Len(b) - Ones(b)
Inv(b)   == [i \in 1..Len(b) |-> 1 - b[i]]
Trace == ndJsonDeserialize(IOEnv.IN_FILE)
IsBits(s) == \A i \in 1..Len(s) : s[i] \in {0, 1}
Total(e, i) == e.sig[i] + (IF Len(e.noise) = 0 THEN 0 ELSE e.noise[i])
Thr(e, i) == IF Len(e.thr) = 1 THEN e.thr[1] ELSE e.thr[i]
NonNeg(e) == \A i \in 1..Len(e.sig) : Total(e, i) >= 0 /\ Thr(e, i) >= 0
Cmp(e) == [i \in 1..Len(e.sig) |-> IF e.op = "gt" THEN (IF Total(e, i) > Thr(e, i) THEN 1 ELSE 0)
                                                  ELSE (IF Total(e, i) < Thr(e, i) THEN 1 ELSE 0)]
Clauses(e) ==
  CASE e.kind = "un" ->
         (IF e.inv # Inv(e.bits) THEN {"invert"} ELSE {}) \cup
         (IF e.inv2 # e.bits THEN {"double-invert"} ELSE {}) \cup
         (IF e.len # Len(e.bits) THEN {"len"} ELSE {}) \cup
         (IF e.ones # Ones(e.bits) \/ e.zeros # Zeros(e.bits) THEN {"ones-zeros"} ELSE {}) \cup
         (IF e.invones # Zeros(e.bits) THEN {"ones-of-invert"} ELSE {})
    [] e.kind = "ctor" -> IF e.out # e.bits THEN {"ctor-roundtrip"} ELSE {}
    [] e.kind = "cat" -> (IF e.out # e.a \o e.b THEN {"concat"} ELSE {}) \cup
                         (IF e.rout # e.b \o e.a THEN {"rconcat"} ELSE {})
    [] e.kind = "sl" -> IF e.out # SliceSeq(e.a, e.s[1], e.s[2], e.s[3]) THEN {"slice"} ELSE {}
    [] e.kind = "cmp" -> (IF Len(e.out) # Len(e.sig) \/ ~IsBits(e.out) THEN {"cmp-shape"} ELSE {}) \cup
                         (IF NonNeg(e) /\ e.out # Cmp(e) THEN {"cmp-elementwise"} ELSE {})
    \* a threshold of the signal's length or a single value is compared element-wise; any other length is either rejected (ValueError)
    \* or, at any rate, never produces a sequence of another length than the signal's
    [] e.kind = "cmplen" -> IF e.m = e.n \/ e.m = 1 THEN (IF e.raised # "ok" \/ Len(e.out) # e.n \/ ~IsBits(e.out) THEN {"cmp-shape"} ELSE {})
                            ELSE (IF e.raised = "ok" THEN (IF Len(e.out) # e.n \/ ~IsBits(e.out) THEN {"cmp-shape"} ELSE {})
                                  ELSE IF e.raised # "ValueError" THEN {"cmp-mismatch-error"} ELSE {})
    [] e.kind = "cmpany" -> IF Len(e.out) # e.n \/ ~IsBits(e.out) THEN {"cmp-shape"} ELSE {}
Bad == UNION {{<<i, c>> : c \in Clauses(Trace[i])} : i \in 1..Len(Trace)}
ASSUME JsonSerialize(IOEnv.OUT_FILE, [n |-> Len(Trace), bad |-> Bad])
=============================================================================
