----------------------------- MODULE GlobalGrid -----------------------------
(* C14 - the library-wide sampling grid `gv` as a state machine.
   Rates are integers in MHz.  Optional values are <<>> (None) or <<v>>.  The stored arrays t, w
   and the scalar dw are represented by what they were built from: `grid` = <<>> (None) or
   <<points, fs>>.  Actions: Call (any subset of the keyword arguments) and Clean.
   The branch structure of Call follows global_variables.__call__ : sps has priority, then R,
   then fs; an fs passed together with sps and R is ignored; wavelength falls back to its default
   on every call that does not pass it. *)
EXTENDS Integers, Sequences, FiniteSets, TLC
CONSTANTS SpsVals, RVals, FsVals, NVals, WlVals, Keys,    \* argument domains (plain values)
          DefaultR                                         \* the default slot rate 1 GHz in the rate unit of the instance: 1000 (unit MHz),
                                                           \* 3000 (unit 1/3 MHz: then no requested rate is a whole number of Hz)

VARIABLES sps, R, fs, wl, N, grid, custom, last
vars == <<sps, R, fs, wl, N, grid, custom, last>>

DefaultSps == 16
DefaultWl == 1550
None == <<>>
Some(v) == <<v>>
Opt(S) == {None} \cup {Some(v) : v \in S}
Has(x) == x # None
Get(x) == x[1]

Init == /\ sps = DefaultSps /\ R = DefaultR /\ fs = DefaultR * DefaultSps /\ wl = DefaultWl
        /\ N = None /\ grid = None /\ custom = {} /\ last = [op |-> "init"]

\* the caller only passes commensurate rates (domain of the property)
Commensurate(a_sps, a_R, a_fs) ==
  IF Has(a_sps) THEN (IF Has(a_R) THEN TRUE ELSE IF Has(a_fs) THEN Get(a_fs) % Get(a_sps) = 0 ELSE TRUE)
  ELSE IF Has(a_R) THEN (IF Has(a_fs) THEN Get(a_fs) % Get(a_R) = 0 ELSE TRUE)
  ELSE IF Has(a_fs) THEN Get(a_fs) % R = 0 ELSE TRUE

Call(a_sps, a_R, a_fs, a_wl, a_N, a_keys) ==
  /\ Commensurate(a_sps, a_R, a_fs)
  /\ IF Has(a_sps) THEN
        /\ sps' = Get(a_sps)
        /\ IF Has(a_R) THEN R' = Get(a_R) /\ fs' = Get(a_R) * Get(a_sps)
           ELSE IF Has(a_fs) THEN fs' = Get(a_fs) /\ R' = Get(a_fs) \div Get(a_sps)
           ELSE R' = R /\ fs' = R * Get(a_sps)
     ELSE IF Has(a_R) THEN
        /\ R' = Get(a_R)
        /\ IF Has(a_fs) THEN fs' = Get(a_fs) /\ sps' = Get(a_fs) \div Get(a_R)
           ELSE sps' = sps /\ fs' = Get(a_R) * sps
     ELSE IF Has(a_fs) THEN fs' = Get(a_fs) /\ R' = R /\ sps' = Get(a_fs) \div R
     ELSE UNCHANGED <<sps, R, fs>>
  /\ N' = IF Has(a_N) THEN a_N ELSE N
  \* t, w, dw are rebuilt for the slot count in effect on the grid now in force
  /\ grid' = IF Has(N') THEN Some(<<Get(N') * sps', fs'>>) ELSE grid
  /\ wl' = IF Has(a_wl) THEN Get(a_wl) ELSE DefaultWl
  /\ custom' = custom \cup a_keys
  /\ last' = [op |-> "call", sps |-> a_sps, R |-> a_R, fs |-> a_fs, wl |-> a_wl, N |-> a_N, keys |-> a_keys]

Clean == /\ sps' = DefaultSps /\ R' = DefaultR /\ fs' = DefaultR * DefaultSps /\ wl' = DefaultWl
         /\ N' = None /\ grid' = None /\ custom' = {} /\ last' = [op |-> "clean"]

Next == \/ \E a \in Opt(SpsVals), b \in Opt(RVals), c \in Opt(FsVals), d \in Opt(WlVals), e \in Opt(NVals),
              k \in SUBSET Keys : Call(a, b, c, d, e, k)
        \/ Clean
Spec == Init /\ [][Next]_vars

\* ---------------------------------------------------------------- the property
GridConsistent ==
  /\ fs = R * sps /\ sps >= 1
  /\ (Has(N) => grid = Some(<<Get(N) * sps, fs>>))        \* t, w: N*sps points on the current fs; dw = 2 pi fs/(N sps)
  /\ (~Has(N) => grid = None)
CustomPersists == [][(last'.op = "call") => custom \subseteq custom']_vars
CleanRestores == (last.op = "clean") =>
   sps = DefaultSps /\ R = DefaultR /\ fs = DefaultR * DefaultSps /\ wl = DefaultWl /\ N = None /\ grid = None /\ custom = {}
NSticky == [][(last'.op = "call" /\ ~Has(last'.N)) => N' = N]_vars
=============================================================================
