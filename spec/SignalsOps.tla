----------------------------- MODULE SignalsOps -----------------------------
(* C01 - value-level operators of the signal containers (no state): objects, the shape/noise
   contract, total field, the arithmetic operators with numpy broadcasting, slicing. *)
EXTENDS Arith, PySlice, FiniteSets, TLC
Obj(c, p, s, n, h) == [cls |-> c, npol |-> p, sig |-> s, noise |-> n, hasnoise |-> h, any |-> FALSE]
LenOf(o) == Len(o.sig[1])
Rows(o) == Len(o.sig)
\* ---- contract of the property (shape/noise)
RowsOK(f, p) == Len(f) = p /\ Len(f[1]) >= 1 /\ \A r \in 1..p : Len(f[r]) = Len(f[1])
ShapeOK(o) == /\ o.cls \in {"E", "O"} /\ o.npol \in {1, 2} /\ (o.cls = "E" => o.npol = 1)
              /\ RowsOK(o.sig, o.npol)
              /\ (o.hasnoise => RowsOK(o.noise, o.npol) /\ Len(o.noise[1]) = Len(o.sig[1]))
              /\ (~o.hasnoise => o.noise = <<>>)
\* ---- total field
ZeroRows(p, n) == [r \in 1..p |-> [i \in 1..n |-> CZero]]
NoiseOr0(o) == IF o.hasnoise THEN o.noise ELSE ZeroRows(o.npol, LenOf(o))
RowsMap2(Op(_, _), f, g) ==      \* f: p rows x n, g: q rows x m with q \in {1, p}, m \in {1, n}  (numpy broadcasting)
  [r \in 1..Len(f) |-> [i \in 1..Len(f[1]) |->
       Op(f[r][i], LET gr == g[IF Len(g) = 1 THEN 1 ELSE r] IN gr[IF Len(gr) = 1 THEN 1 ELSE i])]]
RowsNeg(f) == [r \in 1..Len(f) |-> [i \in 1..Len(f[r]) |-> CNeg(f[r][i])]]
Total(o) == RowsMap2(CAdd, o.sig, NoiseOr0(o))

\* ---- operators  a (op) b, with b an object of the same class (literals are constructed first)
Compatible(a, b) == (LenOf(a) = LenOf(b) \/ LenOf(b) = 1) /\ Rows(b) <= Rows(a)
Bin(op, a, b) ==
  LET S(f, g) == IF op \in {"add", "radd"} THEN RowsMap2(CAdd, f, g)
                 ELSE IF op = "sub" THEN RowsMap2(CSub, f, g)
                 ELSE IF op = "rsub" THEN RowsNeg(RowsMap2(CSub, f, g))
                 ELSE RowsMap2(CMul, f, g)
      has == a.hasnoise \/ b.hasnoise
      nz  == IF ~has THEN <<>> ELSE S(NoiseOr0(a), NoiseOr0(b))
  IN  [Obj(a.cls, Rows(a), S(a.sig, b.sig), nz, has) EXCEPT !.any = (op \in {"mul", "rmul"})]
\* slicing: per row, signal and noise alike; an int index keeps one sample per row
SliceObj(o, a, b, s) ==
  LET f(rows) == [r \in 1..Len(rows) |-> SliceSeq(rows[r], a, b, s)] IN
  Obj(o.cls, o.npol, f(o.sig), IF o.hasnoise THEN f(o.noise) ELSE <<>>, o.hasnoise)
IndexObj(o, k) ==
  LET p == IndexPos(LenOf(o), k)
      f(rows) == [r \in 1..Len(rows) |-> <<rows[r][p]>>] IN
  Obj(o.cls, o.npol, f(o.sig), IF o.hasnoise THEN f(o.noise) ELSE <<>>, o.hasnoise)
\* domain transform: same class / layout / length / noise presence, values not fixed here (C02)
TransformObj(o) == [o EXCEPT !.any = TRUE]

LitObj(cls, vals) == Obj(cls, Len(vals), vals, <<>>, FALSE)
Ops == {"add", "radd", "sub", "rsub", "mul", "rmul"}
=============================================================================
