----------------------------- MODULE DacSampler -----------------------------
(* C05 - DAC pulse shaping (NRZ / RZ exactly, Gaussian through the three observables the property
   names) and SAMPLER.  Amplitudes are integers (volts * 64 in traces: exact in doubles). *)
EXTENDS Integers, Sequences, FiniteSets, TLC
\* sample i (1-based) of the waveform of `bits` at sps samples per slot
NrzSample(bits, sps, vout, bias, i) == bias + vout * bits[((i - 1) \div sps) + 1]
RzSample(bits, sps, vout, bias, i) ==
  IF (i - 1) % sps < sps \div 2 THEN bias + vout * bits[((i - 1) \div sps) + 1] ELSE bias
Dac(bits, sps, shape, vout, bias) ==
  [i \in 1..(Len(bits) * sps) |-> IF shape = "rz" THEN RzSample(bits, sps, vout, bias, i)
                                  ELSE NrzSample(bits, sps, vout, bias, i)]
\* SAMPLER(x, k): elements k, k+sps, ... (0-based k) of a sequence
SamplerLen(n, sps, k) == IF k >= n THEN 0 ELSE ((n - 1 - k) \div sps) + 1
Sampler(x, sps, k) == [j \in 1..SamplerLen(Len(x), sps, k) |-> x[k + (j - 1) * sps + 1]]
\* decision against the mid level bias + vout/2 (compared as 2*sample vs 2*bias+vout); for a negative
\* swing the ON level is the lower one
Decide(samples, vout, bias) ==
  [j \in 1..Len(samples) |-> IF vout > 0 THEN (IF 2 * samples[j] > 2 * bias + vout THEN 1 ELSE 0)
                                         ELSE (IF 2 * samples[j] < 2 * bias + vout THEN 1 ELSE 0)]
InsidePulse(shape, sps, k) == IF shape = "rz" THEN k < sps \div 2 ELSE k < sps

\* Gaussian observables of an isolated 1 (integers: sample index inside the slot, peak in ppm of
\* Vout, half-maximum width in milli-samples)
GaussOK(sps, T, idx, peakppm, fwhm) ==
  /\ 2 * idx - sps <= 2 /\ sps - 2 * idx <= 2                   \* peak within one sample of the slot centre
  /\ peakppm >= 950000 /\ peakppm <= 1050000                     \* reaches Vout within 5 %
  /\ fwhm - 1000 * T <= 1000 /\ 1000 * T - fwhm <= 1000           \* width within one sample of T
\* argument verdicts, one fault at a time.  fault names the offending argument and its defect.
Verdict(fault) ==
  CASE fault = "none" -> "ok"
    [] fault \in {"vout-str", "bias-str", "c-str", "m-float", "T-float", "vout-list", "bias-none-ok", "vout-complex", "bias-complex", "vout-npcomplex", "bias-npcomplex",
                 "vout-npcomplex64", "vout-tuple", "bias-ndarray", "bias-list"} ->
         (IF fault = "bias-none-ok" THEN "ok" ELSE "TypeError")
    [] fault \in {"vout-48", "vout-neg48", "vout-1000", "bias-48", "bias-neg100", "vout-48-gauss-narrow", "vout-49.5-gauss-narrow", "bias-48-gauss", "vout-neg1000-rz", "m-zero", "m-neg", "T-zero", "T-neg", "T-over-2sps", "shape-unknown"} -> "ValueError"
=============================================================================
