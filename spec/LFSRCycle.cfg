SPECIFICATION CycleSpec
INVARIANT NeverZero
INVARIANT ReturnsOnlyAtPeriod
INVARIANT StepAgree
PROPERTY Returns
CHECK_DEADLOCK FALSE
