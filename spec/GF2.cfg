INIT Init
NEXT Next
INVARIANT Result
CHECK_DEADLOCK FALSE
