--------------------------- MODULE QuantiserTrace ---------------------------
(* C18, binding T: recorded calls of utils.shortest_int and devices.ADC on integer-valued data.
     si   [s, pnum, pden, lo, hi]              shortest_int(data, pnum/pden) -> (lo, hi); s = sorted data
     adc  [x, s, n, otype, out]                ADC(x, n, otype); out = codes, or volts*(2^n-1)       *)
EXTENDS Quantiser, Json, IOUtils
Trace == ndJsonDeserialize(IOEnv.IN_FILE)
Clauses(e) ==
  CASE e.kind = "si" ->
        LET lag == Lag(Len(e.s), e.pnum, e.pden) IN
        (IF ~(e.lo <= e.hi) THEN {"lo<=hi"} ELSE {}) \cup
        (IF ~IsOrderStatPair(e.s, lag, e.lo, e.hi) THEN {"not-lag-apart-order-statistics"} ELSE {}) \cup
        (IF ~IsMinimal(e.s, lag, e.hi - e.lo) THEN {"not-minimal"} ELSE {}) \cup
        (IF Covers(e.s, e.lo, e.hi) < lag + 1 THEN {"coverage"} ELSE {})
    [] e.kind = "adc" ->
        (IF Len(e.out) # Len(e.x) THEN {"length"} ELSE {}) \cup
        (IF ~DistinctOK(e.out, e.n) THEN {"more-than-2^n-values"} ELSE {}) \cup
        (IF Len(e.out) = Len(e.x) /\ ~AdcOK(e.x, e.s, e.out, e.n, e.otype) THEN {"codes-range-halfstep-saturation"} ELSE {})
\* (data that are not dyadic: the countable clauses as observed by the harness)
StatClauses(e) ==
  CASE e.kind = "sistat" -> (IF ~e.ordered THEN {"lo<=hi"} ELSE {}) \cup (IF ~e.lo_in \/ ~e.hi_in THEN {"not-data-values"} ELSE {}) \cup
                            (IF e.covered < e.lag + 1 THEN {"coverage"} ELSE {})
    [] e.kind = "adcstat" -> (IF ~e.len_ok THEN {"length"} ELSE {}) \cup (IF e.distinct > Pow2(e.n) THEN {"more-than-2^n-values"} ELSE {}) \cup
                             (IF ~e.finite \/ ~e.inside THEN {"outside-full-scale"} ELSE {}) \cup (IF ~e.sat_ok THEN {"saturation-at-end-codes"} ELSE {})
Bad == UNION {{<<i, c>> : c \in (IF Trace[i].kind \in {"sistat", "adcstat"} THEN StatClauses(Trace[i]) ELSE Clauses(Trace[i]))} : i \in 1..Len(Trace)}
ASSUME JsonSerialize(IOEnv.OUT_FILE, [n |-> Len(Trace), bad |-> Bad])
=============================================================================
