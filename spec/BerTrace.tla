-------------------------------- MODULE BerTrace --------------------------------
(* C13 - contract on the analytic BER / threshold / receiver-noise functions, evaluated on recorded values
   (Sci pairs, see Sci.tla).  Events:
     qpoint [fn, k, val, slack]        a lattice point whose closed form is Q(k):  QTab[k] <= val <= QTab[k] (1 + slack*1e-8)
                                       (values of the soft-decision formula 1 - quad(...) carry scipy's absolute quadrature tolerance 1.5e-8:
                                        they are compared with an absolute slack of 3e-8, and on the lattice only for k <= 4)
     eq     [name, a, b, tol]          two API programs that must agree (tol in mantissa units = 1e-8 relative); thresholds found on a
                                       1000-point grid are compared up to 4 grid steps (argmin over a flat minimum)
     leq    [name, a, b]               a <= b
     inside [name, lo, x, hi]          lo <= x <= hi
     mono   [name, seq]                non-increasing sequence of Sci values                                *)
EXTENDS Sci, TLC, Json, IOUtils
Trace == ndJsonDeserialize(IOEnv.IN_FILE)
Names == {"ook-never-below-true-minimum", "ook-within-grid-error-of-minimum", "ook=error-integral-on-grid", "ppm-soft<=hard", "bounded-by-M/(2(M-1))",
          "vectorises-elementwise", "estimator-translation-invariant", "threshold-translation-equivariant", "threshold-inside-[mu0,mu1]",
          "ook-threshold-midpoint-for-equal-sigmas", "optimum-threshold-solves-density-equation", "BER-non-increasing-in-mu", "BER-decreases-with-received-power",
          "utils.theory_BER=error-integral-on-model-levels-and-variances", "noise_variances=thermal+shot-monomials", "average-power-is-P_avg",
          "p_ase=monomial", "mu_ASE=monomial", "levels=monomial", "estimator=formula-on-eye-statistics", "ppm-soft-M2=Q",
          "threshold-covariant-under-a-change-of-units", "value-independent-of-argument-dtype"}
SciNonInc(s, slack) == \A i \in 1..(Len(s) - 1) : SciLeq(s[i + 1], s[i], slack)
Clauses(e) ==
  CASE e.kind = "qpoint" -> (IF ~SciLeq(QTab[e.k + 1], e.val, 20) THEN {e.fn \o "-below-Q(k)"} ELSE {}) \cup
                            (IF ~SciLeq(e.val, <<QTab[e.k + 1][1] + (QTab[e.k + 1][1] \div 100000) * (e.slack \div 1000) + 20, QTab[e.k + 1][2]>>, 0)
                               THEN {e.fn \o "-above-Q(k)-plus-grid-error"} ELSE {})
    [] e.kind = "eq" -> IF e.name \notin Names THEN {"unknown-name"} ELSE IF ~SciClose(e.a, e.b, e.tol) THEN {e.name} ELSE {}
    [] e.kind = "leq" -> IF e.name \notin Names THEN {"unknown-name"} ELSE IF ~SciLeq(e.a, e.b, 5) THEN {e.name} ELSE {}
    [] e.kind = "inside" -> IF ~(SciLeq(e.lo, e.x, 5) /\ SciLeq(e.x, e.hi, 5)) THEN {e.name} ELSE {}
    [] e.kind = "mono" -> IF ~SciNonInc(e.seq, e.slack) THEN {e.name} ELSE {}
Bad == UNION {{<<i, c>> : c \in Clauses(Trace[i])} : i \in 1..Len(Trace)}
ASSUME JsonSerialize(IOEnv.OUT_FILE, [n |-> Len(Trace), bad |-> Bad])
=============================================================================
