------------------------------ MODULE PPMTrace ------------------------------
(* C12, binding T: events recorded from opticomlib.ppm validated against PPM.tla.
     enc     [M, bits, out]            PPM_ENCODER
     dec     [M, slots, out]           PPM_DECODER on a codeword
     rt      [M, bits, out]            PPM_DECODER(PPM_ENCODER(bits))
     hdd     [M, in, out]              HDD (any numpy seed)
     sdd     [M, sps, x, out]          SDD on an integer-valued waveform
     verdict [fn, M, len, unit, raised] *)
EXTENDS PPM, Json, IOUtils
Trace == ndJsonDeserialize(IOEnv.IN_FILE)
IsBits(s) == \A i \in 1..Len(s) : s[i] \in {0, 1}
Clauses(e) ==
  CASE e.kind = "enc" ->
         (IF ~IsBits(e.out) THEN {"not-binary"} ELSE {}) \cup
         (IF e.out # Encode(e.bits, e.M) THEN {"encoder-output"} ELSE {}) \cup
         (IF ~IsCodeword(e.out, e.M) THEN {"one-hot"} ELSE {})
    [] e.kind = "dec" -> IF ~IsCodeword(e.slots, e.M) THEN {"encoder-output-not-a-codeword"}
                         ELSE IF e.out # Decode(e.slots, e.M) THEN {"decoder-output"} ELSE {}
    [] e.kind = "rt"  -> IF e.out # Truncate(e.bits, e.M) THEN {"round-trip"} ELSE {}
    [] e.kind = "hdd" -> (IF ~HddAllowed(e.in, e.out, e.M) THEN {"hdd-relation"} ELSE {}) \cup
                         (IF IsCodeword(e.in, e.M) /\ e.out # e.in THEN {"hdd-identity"} ELSE {})
    [] e.kind = "sdd" -> IF ~SddAllowed(e.x, e.sps, e.out, e.M) THEN {"sdd-argmax"} ELSE {}
    [] e.kind = "verdict" -> IF e.raised # DecisionVerdict(e.M, e.len, e.unit) THEN {"verdict"} ELSE {}
Bad == UNION {{<<i, c>> : c \in Clauses(Trace[i])} : i \in 1..Len(Trace)}
ASSUME JsonSerialize(IOEnv.OUT_FILE, [n |-> Len(Trace), bad |-> Bad])
=============================================================================
