------------------------------- MODULE Detector -------------------------------
(* C09 - the photodetector PD as: square-law intensity of the field, the selection table of noise
   terms, the argument verdicts, and (Units.tla) the documented variances.
   The output low-pass filter is an opaque linear operator F with F(const) = const (C11); in the
   bounded model it is the identity, which is enough for the algebra checked here. *)
EXTENDS Arith, Units
\* instantaneous intensity summed over the polarisations present; field = sequence of rows
Intensity(f) == [i \in 1..Len(f[1]) |-> IF Len(f) = 1 THEN CNorm2(f[1][i]) ELSE CNorm2(f[1][i]) + CNorm2(f[2][i])]
AddF(a, b) == [r \in 1..Len(a) |-> [i \in 1..Len(a[r]) |-> CAdd(a[r][i], b[r][i])]]
RotF(f, k) == [r \in 1..Len(f) |-> [i \in 1..Len(f[r]) |-> CRot(f[r][i], k)]]
ScaleF(c, f) == [r \in 1..Len(f) |-> [i \in 1..Len(f[r]) |-> CScale(c, f[r][i])]]
\* rational unitary mixing of the two polarisations, times 5:   5*U = [[3, 4], [-4, 3]]
Mix5(f) == << [i \in 1..Len(f[1]) |-> CAdd(CScale(3, f[1][i]), CScale(4, f[2][i]))],
              [i \in 1..Len(f[1]) |-> CAdd(CScale(-4, f[1][i]), CScale(3, f[2][i]))] >>
\* beating of the signal with the input's noise component:  |s+n|^2 - |s|^2  =  2Re(s n*) + |n|^2
Beat(s, n) == [i \in 1..Len(s[1]) |-> Intensity(AddF(s, n))[i] - Intensity(s)[i]]

\* ---- selection table (lower-cased string -> set of terms); anything else is rejected
Selections == {"ase-only", "thermal-only", "shot-only", "ase-thermal", "ase-shot", "thermal-shot", "all"}
Terms(sel) == CASE sel = "ase-only" -> {"beat"} [] sel = "thermal-only" -> {"thermal"} [] sel = "shot-only" -> {"shot"}
                [] sel = "ase-thermal" -> {"beat", "thermal"} [] sel = "ase-shot" -> {"beat", "shot"}
                [] sel = "thermal-shot" -> {"thermal", "shot"} [] sel = "all" -> {"beat", "thermal", "shot"}
\* ---- argument verdicts (one fault at a time)
Verdict(fault) == CASE fault \in {"none", "T-zero", "T-zero-int", "r-one", "idark-zero", "selection-mixed-case"} -> "ok"    \* boundary values inside the domain
   [] fault \in {"input-electrical", "input-ndarray", "r-str", "T-str", "Rload-str", "include-noise-int", "r-list"} -> "TypeError"
   [] fault \in {"r-zero", "r-negative", "r-above-1", "T-negative", "Rload-negative", "include-noise-unknown", "include-noise-empty"} -> "ValueError"
=============================================================================
