------------------------------- MODULE FiberStep -------------------------------
(* C08 - the adaptive step controller of FIBER (the one stateful algorithm of the library).
   Numbers are IEEE-like tagged values  <<"num", n>>, <<"inf", 0>>, <<"nan", 0>>  because the
   original code divided by a peak power that may be zero; the design below carries the guard
   "an all-zero field takes one full-length step".  Lengths are integers (L = total, K = phi_max /
   gamma in units where a peak p gives the step K / p; peaks divide K).
   pc: "first" -> "loop" -> "last" -> "done".
     first: h := step(peak of the input);   x := h          (step(p) = min(K / p, L): never beyond the fibre end)
     loop : propagate h; h := step(peak of the new field); IF x + h > L THEN goto last ELSE x := x + h
     last : h := L - x; propagate h if h # 0; done
   The environment chooses the peak after every propagation step. *)
EXTENDS Integers, Sequences, FiniteSets, TLC
CONSTANTS L, K, Peaks, Guarded, Clamped   \* Guarded: zero-peak guard present; Clamped: steps limited to the fibre length (FALSE = the originals)
VARIABLES pc, h, x, total, steps
vars == <<pc, h, x, total, steps>>
Num(n) == <<"num", n>>
Inf == <<"inf", 0>>
NaN == <<"nan", 0>>
IsNum(v) == v[1] = "num"
Add(a, b) == IF IsNum(a) /\ IsNum(b) THEN Num(a[2] + b[2]) ELSE IF a = NaN \/ b = NaN THEN NaN ELSE Inf
Sub(a, b) == IF IsNum(a) /\ IsNum(b) THEN Num(a[2] - b[2]) ELSE IF a = NaN \/ b = NaN THEN NaN ELSE IF IsNum(a) THEN NaN ELSE IF IsNum(b) THEN Inf ELSE NaN
Gt(a, b) == IF IsNum(a) /\ IsNum(b) THEN a[2] > b[2] ELSE IF a = NaN \/ b = NaN THEN FALSE ELSE a = Inf /\ IsNum(b)
\* step for a given peak; a non-finite previous step poisons the field (NaN power)
Min(a, b) == IF a < b THEN a ELSE b
Step(p, poisoned) == IF poisoned THEN NaN ELSE IF p = 0 THEN (IF Guarded THEN Num(L) ELSE Inf)
                     ELSE Num(IF Clamped THEN Min(K \div p, L) ELSE K \div p)
Poisoned == ~IsNum(h)
Init == pc = "first" /\ h = Num(0) /\ x = Num(0) /\ total = Num(0) /\ steps = 0
First == /\ pc = "first"
         /\ \E p \in Peaks : h' = Step(p, FALSE) /\ x' = Step(p, FALSE)
         /\ pc' = "loop" /\ UNCHANGED <<total, steps>>
Loop == /\ pc = "loop"
        /\ total' = Add(total, h) /\ steps' = steps + 1
        /\ \E p \in Peaks :
             LET hn == Step(p, Poisoned) IN
             /\ h' = hn
             /\ IF Gt(Add(x, hn), Num(L)) THEN pc' = "last" /\ x' = x ELSE pc' = "loop" /\ x' = Add(x, hn)
Last == /\ pc = "last"
        /\ LET hl == Sub(Num(L), x) IN
           /\ h' = hl
           /\ total' = (IF hl # Num(0) THEN Add(total, hl) ELSE total)
           /\ steps' = (IF hl # Num(0) THEN steps + 1 ELSE steps)
        /\ pc' = "done" /\ UNCHANGED x
Next == First \/ Loop \/ Last
Spec == Init /\ [][Next]_vars /\ WF_vars(Next)
\* ---- the property of the controller
StepsSumToLength == pc = "done" => total = Num(L)
\* the field is never propagated beyond the fibre end and never backwards (an unclamped first step on a weak input overshoots by orders
\* of magnitude: with loss the field underflows to zero and the negative correction step turns it into NaN)
WithinFibre == IsNum(x) => x[2] <= L
NeverBackward == IsNum(h) => h[2] >= 0
FiniteSteps == IsNum(h) /\ IsNum(x) /\ IsNum(total)
BoundedWork == steps <= L + 2                                  \* every loop step advances by at least one unit
Terminates == <>(pc = "done")
=============================================================================
