----------------------------- MODULE DetectorTrace -----------------------------
(* C09, bindings E and T.  Every PD call is made with numpy's RNG tapped; the output noise is decomposed
   (least squares, through the library's own output filter as an opaque linear operator) into the
   recorded unit draw blocks, a constant offset and a remainder.  Events:
     law      [name, ppt]
     call     [sel, len_ok, sig_det, gauss (sequence of fitted sigma^2 ratios in ppm deviation, tagged), remainder_ppt, offset_ppm,
               expect_thermal, expect_shot, expect_beat ...]   see Clauses
     verdict  [fault, raised]                                                                    *)
EXTENDS Detector, Json, IOUtils
Trace == ndJsonDeserialize(IOEnv.IN_FILE)
Laws == {"CW-level=r*P*Rload", "phase-rotation-invariant", "polarisation-unitary-invariant", "linear-in-r", "linear-in-Rload", "quadratic-in-amplitude",
         "signal-part-deterministic", "ase-only-noise=PD(total)-PD(signal)+dark", "noise-free-selection-has-only-dark-offset",
         "result-independent-of-call-history"}
Lower(sel) == sel
CallClauses(e) ==
  LET want == Terms(e.sel) IN
  (IF ~e.len_ok THEN {"output-length"} ELSE {}) \cup
  \* exactly the selected Gaussian terms: set of term tags whose fitted amplitude is non-zero
  (IF {e.gauss[i].term : i \in 1..Len(e.gauss)} # (want \cap {"thermal", "shot"}) THEN {"selected-gaussian-terms"} ELSE {}) \cup
  (IF \E i \in 1..Len(e.gauss) : e.gauss[i].var_ppm > 10 THEN {"variance-of-" \o (CHOOSE t \in {e.gauss[i].term : i \in {j \in 1..Len(e.gauss) : e.gauss[j].var_ppm > 10}} : TRUE)} ELSE {}) \cup
  \* what the draws do not explain: beating (iff selected) + dark-current offset
  (IF e.remainder_ppt > 1000000 THEN {"beating-terms-iff-selected"} ELSE {}) \cup
  (IF e.offset_ppm > 10 THEN {"dark-current-offset"} ELSE {})
Clauses(e) ==
  CASE e.kind = "law" -> IF e.name \notin Laws THEN {"unknown-law"} ELSE IF e.ppt > 1000 THEN {e.name} ELSE {}
    [] e.kind = "call" -> CallClauses(e)
    \* fall-back when the draws are not recognisable: the statement's statistical clause, judged by the harness against reference realisations
    [] e.kind = "callstat" -> (IF ~e.len_ok THEN {"output-length"} ELSE {}) \cup (IF ~e.var_ok THEN {"noise-variance-statistical"} ELSE {}) \cup
                              (IF ~e.offset_ok THEN {"dark-current-offset"} ELSE {})
    [] e.kind = "verdict" -> IF e.raised # Verdict(e.fault) THEN {"verdict-" \o e.fault} ELSE {}
Bad == UNION {{<<i, c>> : c \in Clauses(Trace[i])} : i \in 1..Len(Trace)}
ASSUME JsonSerialize(IOEnv.OUT_FILE, [n |-> Len(Trace), bad |-> Bad])
=============================================================================
