---------------------------------- MODULE Eye ----------------------------------
(* C17 - GET_EYE: (a) the discrete skeleton (truncation, roll, sampling-index arithmetic) as a small model;
   (b) the contract of the statement on estimates recorded from real runs, in parts per million of (b - a):
       mu0 within 8 % of a, mu1 within 8 % of b, sigma/2 <= s <= 2 sigma + 3 %, mu0 < threshold < mu1,
       t_right - t_left within 10 % of one slot, t_opt midway, integer i in [0, sps);
       equivariance under y -> alpha y + beta (same timing outputs, levels mapped, spreads scaled). *)
EXTENDS Integers, Sequences, FiniteSets, TLC
\* ---- (a) index arithmetic: the eye is drawn over 2 slots, t in [-1, 1) with R = sps_resamp points per slot (0-based index j
\* in 0..2R-1, t = -1 + j/R); the record was rolled by -(sps div 2) + 1 samples; the sampling instant for a decision time on
\* grid index j is  instant = ((j - R div 2 + 1) * sps) div R  (floor toward zero in Python's int() for non-negative values)
Instant(j, R, sps) == LET k == j - (R \div 2) + 1 IN (IF k >= 0 THEN (k * sps) \div R ELSE -(((-k) * sps) \div R))
CONSTANTS SpsVals, Rs
VARIABLES sps, R, j
vars == <<sps, R, j>>
Init == sps \in SpsVals /\ R \in Rs /\ j \in 0..(2 * R - 1)
Next == UNCHANGED vars
Spec == Init /\ [][Next]_vars
\* whenever the optimum time lies within a quarter slot of the eye centre (t = 0 <=> j = R), the index is a valid sample of the slot
CentreQuarter == (4 * (j - R) <= R /\ 4 * (R - j) <= R) => (Instant(j, R, sps) >= 0 /\ Instant(j, R, sps) < sps)
\* and it is within a quarter slot (+1 sample) of the slot centre sps/2
NearCentre == (4 * (j - R) <= R /\ 4 * (R - j) <= R) =>
   (4 * Instant(j, R, sps) >= sps - 4 /\ 4 * Instant(j, R, sps) <= 3 * sps + 4)
\* ---- the reported index is Instant modulo sps (the phase within a slot) and it is the sample of the optimum instant: the sample that sits
\* at grid index j of the rolled window is  j*sps/R + sps/2 - 1  in the record; the library undoes the roll as  - R/2 + 1  on the eye grid and
\* truncates (towards zero: one sample more left of the window centre), which lands 1 ... 3 samples later.  EyeTrace's clause allows 3.1 samples
\* (+ two eye-grid steps sps/R when the eye grid is coarser than the record - an odd R halves unevenly); here that allowance is checked against the design for EVERY grid position j, every sps
\* and every R, in units of 1/(2R) sample so that the arithmetic is exact:  D = 2R*i - ((2j - R)*sps - R)  reduced to (-sps*R, sps*R]
Index(jj, RR, ss) == Instant(jj, RR, ss) % ss
Centred(d, m) == LET r == d % m IN IF 2 * r > m THEN r - m ELSE r
IOff2R(jj, RR, ss) == Centred(2 * RR * Index(jj, RR, ss) - ((2 * jj - RR) * ss - RR), 2 * RR * ss)
Allow2R(RR, ss) == (31 * 2 * RR) \div 10 + (IF RR < ss THEN 4 * ss ELSE 0)
IndexInRange == Index(j, R, sps) >= 0 /\ Index(j, R, sps) < sps
IndexAtOptimum == sps >= 8 => (IOff2R(j, R, sps) <= Allow2R(R, sps) /\ -IOff2R(j, R, sps) <= Allow2R(R, sps))
\* negative control: one sample of allowance less is NOT enough (the clause's tolerance is not slack)
TooTight == sps >= 8 => (IOff2R(j, R, sps) <= Allow2R(R, sps) - 2 * R /\ -IOff2R(j, R, sps) <= Allow2R(R, sps) - 2 * R)
=============================================================================
