------------------------------ MODULE Modulators ------------------------------
(* C06 - MZM and PM on the quarter-turn lattice.
   Field samples are Gaussian integers; an output sample is [v, attn] meaning
        v * sqrt(loss) * (IF attn THEN 10^(-ER/20) ELSE 1)
   MZM: theta = pi (u + bias) / (2 Vpi).  With u + bias = q * Vpi the phase is q quarter turns and
        cos(theta) + j eta sin(theta) = j^q * (1 for even q, eta for odd q),  eta = 10^(-ER/20).
   PM : phase pi u / Vpi; with u = q * Vpi / 2 the factor is j^q (no attenuation).
   The drive is a sequence of integers q (one per sample, or a single one = scalar drive). *)
EXTENDS Arith, FiniteSets, TLC
DriveAt(q, i) == IF Len(q) = 1 THEN q[1] ELSE q[i]
MzmRow(row, q) == [i \in 1..Len(row) |-> [v |-> CRot(row[i], DriveAt(q, i)), attn |-> (DriveAt(q, i) % 2 = 1)]]
ZeroRow(n) == [i \in 1..n |-> [v |-> CZero, attn |-> FALSE]]
\* rows: 1 or 2 polarisations; pol "x" keeps row 1, "y" keeps row 2 of a two-polarisation field
Mzm(rows, q, pol) ==
  [r \in 1..Len(rows) |-> IF Len(rows) = 2 /\ ((pol = "x" /\ r = 2) \/ (pol = "y" /\ r = 1)) THEN ZeroRow(Len(rows[r]))
                         ELSE MzmRow(rows[r], q)]
PmRow(row, q) == [i \in 1..Len(row) |-> CRot(row[i], DriveAt(q, i))]
Pm(rows, q) == [r \in 1..Len(rows) |-> PmRow(rows[r], q)]
LenOK(n, q) == Len(q) = n \/ Len(q) = 1
\* power of an output sample in units of loss * (1 or 10^(-ER/10)):  <<|v|^2, attn>>
=============================================================================
