-------------------------------- MODULE Filter --------------------------------
(* C11 - LPF / BPF as an uninterpreted operator F with declared laws, plus a finite model showing that
   the law set is satisfiable and not vacuous:  on cyclic integer sequences the symmetric kernel
   (1,2,1) satisfies Linear, Reversal (zero delay), ComponentWise; the one-sample delay satisfies
   Linear but violates Reversal - so Reversal is what excludes a delaying (single-pass) filter. *)
EXTENDS Integers, Sequences, FiniteSets, TLC
CONSTANTS N, Vals, Coefs
VARIABLES x, y, a, b
vars == <<x, y, a, b>>
Idx(i) == ((i - 1) % N) + 1
Sym(u) == [i \in 1..N |-> u[Idx(i - 1)] + 2 * u[i] + u[Idx(i + 1)]]        \* zero-phase kernel (DC gain 4)
Delay(u) == [i \in 1..N |-> u[Idx(i - 1)]]                                   \* one-sample delay (DC gain 1)
Rev(u) == [i \in 1..N |-> u[N + 1 - i]]
Lin(p, u, q, v) == [i \in 1..N |-> p * u[i] + q * v[i]]
Init == x \in [1..N -> Vals] /\ y \in [1..N -> Vals] /\ a \in Coefs /\ b \in Coefs
Next == UNCHANGED vars
Spec == Init /\ [][Next]_vars
Linear(F(_)) == F(Lin(a, x, b, y)) = Lin(a, F(x), b, F(y))
Reversal(F(_)) == F(Rev(x)) = Rev(F(x))
DCFixed(F(_), gain) == LET c == [i \in 1..N |-> a] IN F(c) = [i \in 1..N |-> gain * a]
SymSatisfiesLaws == Linear(Sym) /\ Reversal(Sym) /\ DCFixed(Sym, 4)
DelayIsLinear == Linear(Delay) /\ DCFixed(Delay, 1)
\* negative control (expected to be violated by TLC): a delaying filter is not zero-phase
DelayIsZeroPhase == Reversal(Delay)
=============================================================================
