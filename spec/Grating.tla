-------------------------------- MODULE Grating --------------------------------
(* C16 - FBG: (a) the parameter-resolution tree as a decision model over the presence pattern of the
   seven design arguments, (b) the tanh lattice for the Bragg-point reflectivity, (c) constants.
   Presence pattern g: record of booleans fc, landa, dneff, vdneff, kL, L, N.
   Resolve transcribes the order in which FBG consumes them; Complete/Incomplete state, independently,
   which patterns the documentation accepts or must reject. *)
EXTENDS Integers, Sequences, FiniteSets, TLC
Args == {"fc", "landa", "dneff", "vdneff", "kL", "L", "N"}
Patterns == [Args -> BOOLEAN]
LenGiven(g) == g["L"] \/ g["kL"] \/ g["N"]
\* verdict and route, following the branch order of the implementation
Resolve(g) ==
  IF g["fc"] THEN
     (IF g["dneff"] THEN (IF LenGiven(g) THEN "ok" ELSE "ValueError")
      ELSE IF g["vdneff"] THEN (IF LenGiven(g) THEN "ok" ELSE "ValueError")
      ELSE "ValueError")
  ELSE IF g["landa"] THEN
     (IF g["dneff"] THEN (IF LenGiven(g) THEN "ok" ELSE "ValueError")
      ELSE IF g["vdneff"] THEN (IF LenGiven(g) THEN "ok" ELSE "ValueError")
      ELSE IF g["kL"] THEN (IF g["L"] \/ g["N"] THEN "ok" ELSE "ValueError")
      ELSE "ValueError")
  ELSE "ValueError"
\* documented complete specifications (exactly one way of giving the centre)
Complete(g) == /\ g["fc"] # g["landa"]
               /\ \/ (g["dneff"] \/ g["vdneff"]) /\ LenGiven(g)
                  \/ g["landa"] /\ ~g["dneff"] /\ ~g["vdneff"] /\ g["kL"] /\ (g["L"] \/ g["N"])
\* specifications from which the grating cannot be determined
Incomplete(g) == \/ ~g["fc"] /\ ~g["landa"]                                  \* no centre
                 \/ ~g["dneff"] /\ ~g["vdneff"] /\ ~g["kL"]                  \* no index modulation / coupling
                 \/ ~LenGiven(g)                                             \* no length
                 \/ ~g["dneff"] /\ ~g["vdneff"] /\ g["kL"] /\ ~g["L"] /\ ~g["N"]   \* kL alone cannot give both coupling and length
\* which argument fixes the length when several are given (route priority): kL, then N, then L
LengthRoute(g) == IF g["kL"] /\ (g["dneff"] \/ g["vdneff"]) THEN "kL" ELSE IF g["N"] THEN "N" ELSE "L"
VARIABLE g
Init == g \in Patterns
Next == UNCHANGED g
Spec == Init /\ [][Next]_g
CompleteAccepted == Complete(g) => Resolve(g) = "ok"
IncompleteRejected == Incomplete(g) => Resolve(g) = "ValueError"
Disjoint == ~(Complete(g) /\ Incomplete(g))
\* ---- Bragg-point lattice: kL * I (I = integral of the apodisation profile over the grating) -> reflectivity tanh^2 as a rational
\* atanh(3/5) = ln 2, atanh(4/5) = ln 3, atanh(5/13) = ln 1.5, atanh(12/13) = ln 5   (Sci: mantissa, exponent)
Lattice == << [kLI |-> <<69314718, -8>>, num |-> 9, den |-> 25], [kLI |-> <<10986123, -7>>, num |-> 16, den |-> 25],
              [kLI |-> <<40546511, -8>>, num |-> 25, den |-> 169], [kLI |-> <<16094379, -7>>, num |-> 144, den |-> 169] >>
\* integrals of the built-in profiles over [-1/2, 1/2]: uniform 1, parabolic 1-(2z)^2 -> 2/3, rcos (1+cos 2 pi z)/2 -> 1/2,
\* gaussian exp(-4 ln2 (3z)^2) -> 0.35467613 (mpmath, 30 digits); user callables of the harness: 1-|z| -> 3/4, 1/2+z^2 -> 7/12, 1+0.8z -> 1
Profiles == [uniform |-> <<10000000, -7>>, parabolic |-> <<66666667, -8>>, rcos |-> <<50000000, -8>>, gaussian |-> <<35467613, -8>>,
             tri |-> <<75000000, -8>>, quad |-> <<58333333, -8>>, tilt |-> <<10000000, -7>>]      \* tilt: 1 + 0.8 z (not symmetric) -> 1
=============================================================================
