------------------------------ MODULE TextModel ------------------------------
(* Bounded model of C19's discrete part:
   (1) dec2bin for every (v, d), d <= MaxD: the expansion has d digits, big-endian weights give v back;
   (2) every array of <= MaxRows x MaxCols numbers over a value alphabet, every separator style and
       dtype: the rendered text contains only legal characters, the bit-pattern rule is decided by
       the text alone, and the expected parse is emitted for replay on the real str2array;
   (3) si for a grid of x = m*10^e: the decade ladder places the mantissa in [1,1000). *)
EXTENDS Text, Json
CONSTANTS MaxD, MaxRows, MaxCols, Alpha        \* Alpha: the value alphabet (AlphabetFull or AlphabetSmall)
VARIABLES mode, v, d, arr, style, dtype
vars == <<mode, v, d, arr, style, dtype>>
D(neg, int, frac) == [neg |-> neg, int |-> int, frac |-> frac]
R(x) == [re |-> x, im |-> D(FALSE, 0, <<>>), cplx |-> FALSE, unit |-> "j"]
C(x, y, u) == [re |-> x, im |-> y, cplx |-> TRUE, unit |-> u]
\* alphabet: 0, 1, 10, -2, 1.5, -0.25, 2+3j, -1i, 0.5-1.25j, 101
Alphabet == {R(D(FALSE, 0, <<>>)), R(D(FALSE, 1, <<>>)), R(D(FALSE, 10, <<>>)), R(D(TRUE, 2, <<>>)), R(D(FALSE, 1, <<5>>)),
             R(D(TRUE, 0, <<2, 5>>)), C(D(FALSE, 2, <<>>), D(FALSE, 3, <<>>), "j"), C(D(FALSE, 0, <<>>), D(TRUE, 1, <<>>), "i"),
             C(D(FALSE, 0, <<5>>), D(TRUE, 1, <<2, 5>>), "j"), R(D(FALSE, 101, <<>>))}
AlphabetFull == Alphabet
AlphabetSmall == {R(D(FALSE, 1, <<>>)), R(D(FALSE, 10, <<>>)), R(D(TRUE, 0, <<2, 5>>)), C(D(FALSE, 2, <<>>), D(FALSE, 3, <<>>), "j"), C(D(FALSE, 0, <<>>), D(TRUE, 1, <<>>), "i")}
Arrays == UNION {[1..r -> [1..c -> Alpha]] : r \in 1..MaxRows, c \in 1..MaxCols}
Styles == {"comma", "space", "commaspace"}
DTypes == {<<>>, <<"bool">>, <<"int">>, <<"float">>, <<"complex">>}
\* an explicit dtype must be able to hold the values (int only for integer text, bool only for bit text)
DTypeFits(a, t) == t = <<>> \/ t = <<"complex">> \/ (t = <<"float">> /\ Kind(a) # "complex")
                   \/ (t = <<"int">> /\ Kind(a) = "int") \/ (t = <<"bool">> /\ AllBitChars(a))
Init == \/ /\ mode = "dec2bin" /\ d \in 1..MaxD /\ v \in 0..(Pow2(d) + 1) /\ arr = <<>> /\ style = "" /\ dtype = <<>>
        \/ /\ mode = "text" /\ d = 0 /\ v = 0 /\ arr \in Arrays /\ style \in Styles /\ dtype \in DTypes /\ DTypeFits(arr, dtype)
Next == UNCHANGED vars
Spec == Init /\ [][Next]_vars
RECURSIVE WeightSum(_, _)
WeightSum(b, i) == IF i > Len(b) THEN 0 ELSE b[i] * Pow2(Len(b) - i) + WeightSum(b, i + 1)
Dec2BinCorrect == (mode = "dec2bin" /\ Dec2BinVerdict(v, d) = "ok") => Len(Bin(v, d)) = d /\ WeightSum(Bin(v, d), 1) = v
Legal == {"0", "1", "2", "3", "4", "5", "6", "7", "8", "9", ",", ";", ".", "+", "-", " ", "i", "j"}
RenderLegal == mode = "text" => LET t == Render(arr, style) IN \A i \in 1..Len(t) : t[i] \in Legal
\* the bit-pattern rule is a property of the text: only 0/1 digits and separators
BitRuleIsTextual == mode = "text" =>
   LET t == Render(arr, style) IN (AllBitChars(arr) <=> \A i \in 1..Len(t) : t[i] \in {"0", "1", ",", ";", " "})
Emit == mode = "text" => PrintT(<<"EV", ToJson([arr |-> arr, style |-> style, dtype |-> dtype, text |-> Render(arr, style),
                                                 expect |-> Expected(arr, dtype), bits |-> IF AllBitChars(arr) THEN BitRows(arr) ELSE <<>>])>>)
=============================================================================
