------------------------------ MODULE GratingEmit ------------------------------
EXTENDS Grating, Json, IOUtils
ASSUME JsonSerialize(IOEnv.OUT_FILE,
  [lattice |-> Lattice, profiles |-> Profiles,
   table |-> {[g |-> p, verdict |-> Resolve(p), complete |-> Complete(p), incomplete |-> Incomplete(p), route |-> LengthRoute(p)] : p \in Patterns}])
=============================================================================
