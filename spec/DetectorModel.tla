----------------------------- MODULE DetectorModel -----------------------------
(* Bounded model of C09's algebra: every field of <= MaxLen samples over a small alphabet, one or two
   polarisations, with/without noise component; the invariants are the statement's invariances. *)
EXTENDS Detector, Json
CONSTANTS MaxLen
VARIABLES s, n, hasnoise, sel
vars == <<s, n, hasnoise, sel>>
Vals == {<<1, 0>>, <<0, 2>>, <<-1, 1>>, <<0, 0>>}
Fields == UNION {[1..p -> [1..k -> Vals]] : p \in {1, 2}, k \in 1..MaxLen}
Init == /\ s \in Fields /\ hasnoise \in BOOLEAN /\ sel \in Selections
        /\ n = (IF hasnoise THEN [r \in 1..Len(s) |-> [i \in 1..Len(s[1]) |-> <<r, i % 2>>]] ELSE <<>>)
Next == UNCHANGED vars
Spec == Init /\ [][Next]_vars
PhaseInvariant == \A k \in 0..3 : Intensity(RotF(s, k)) = Intensity(s)
UnitaryInvariant == Len(s) = 2 => Intensity(Mix5(s)) = [i \in 1..Len(s[1]) |-> 25 * Intensity(s)[i]]
Quadratic == \A c \in {2, 3} : Intensity(ScaleF(c, s)) = [i \in 1..Len(s[1]) |-> c * c * Intensity(s)[i]]
BeatDecomposition == hasnoise => \A i \in 1..Len(s[1]) :
   Beat(s, n)[i] = Intensity(n)[i] + 2 * (IF Len(s) = 1 THEN CMul(s[1][i], <<n[1][i][1], -n[1][i][2]>>)[1]
                                          ELSE CMul(s[1][i], <<n[1][i][1], -n[1][i][2]>>)[1] + CMul(s[2][i], <<n[2][i][1], -n[2][i][2]>>)[1])
TermsExactlySelected == /\ ("beat" \in Terms(sel)) = (sel \in {"ase-only", "ase-thermal", "ase-shot", "all"})
                        /\ ("thermal" \in Terms(sel)) = (sel \in {"thermal-only", "ase-thermal", "thermal-shot", "all"})
                        /\ ("shot" \in Terms(sel)) = (sel \in {"shot-only", "ase-shot", "thermal-shot", "all"})
=============================================================================
