------------------------------- MODULE LFSR -------------------------------
(***************************************************************************)
(* C04 - the PRBS generator of opticomlib.devices as a state machine.       *)
(*                                                                         *)
(* A register is either a sequence of n bits (r[k+1] = bit k) - the form    *)
(* used by the trace specification, valid for every order incl. 31 - or the *)
(* set of positions holding a 1 (cheap fingerprints for the exhaustive      *)
(* cycle enumeration), or - for orders <= 23 - a plain integer.  The three   *)
(* forms are proved equivalent by TLC on every reachable state (StepAgree). *)
(***************************************************************************)
EXTENDS Integers, Sequences, FiniteSets, TLC


\* ITU-T O.150 polynomials documented by PRBS()
Taps == [o \in {7, 9, 11, 15, 20, 23, 31} |->
           CASE o = 7 -> 6 [] o = 9 -> 5 [] o = 11 -> 9 [] o = 15 -> 14
             [] o = 20 -> 3 [] o = 23 -> 18 [] o = 31 -> 28]
Orders == DOMAIN Taps

Xor(a, b) == (a + b) % 2
RECURSIVE Pow2(_)
Pow2(k) == IF k = 0 THEN 1 ELSE 2 * Pow2(k - 1)

\* ---- register as bit sequence ----
\* one clock: output is bit 0, feedback bit(n-1) xor bit(t-1) enters at bit 0
\* (written with \o / SubSeq so that TLC builds a concrete tuple instead of a chain of lazy functions)
StepBits(r, n, t) == <<Xor(r[n], r[t])>> \o SubSeq(r, 1, n - 1)
OutBits(r) == r[1]
RECURSIVE RunBits(_, _, _, _, _)
RunBits(r, n, t, m, acc) ==
  IF m = 0 THEN <<r, acc>> ELSE RunBits(StepBits(r, n, t), n, t, m - 1, Append(acc, OutBits(r)))
\* <<final register, output bits>>; long requests are generated in blocks of 256 clocks so that
\* TLC's evaluation stack stays shallow (trace events may ask for a whole period)
RECURSIVE GenBlocks(_, _, _, _, _)
GenBlocks(r, n, t, m, acc) ==
  IF m <= 256 THEN LET g == RunBits(r, n, t, m, <<>>) IN <<g[1], acc \o g[2]>>
  ELSE LET g == RunBits(r, n, t, 256, <<>>) IN GenBlocks(g[1], n, t, m - 256, acc \o g[2])
Gen(r, n, t, m) == GenBlocks(r, n, t, m, <<>>)

\* the property's own wording: a[m] = a[m-n] xor a[m-t], the n virtual predecessors
\* a[0], a[-1], ... a[1-n] being bits 0..n-1 of the seed (so the first output is the LSB).
\* ext[i] holds a[i - n] ... ; we build the sequence a[1-n..len-1] left to right.
RECURSIVE RecExt(_, _, _, _)
RecExt(ext, n, t, len) ==     \* ext = <<a[1-n], ..., a[cur]>>
  IF Len(ext) >= n + len - 1 THEN ext
  ELSE RecExt(Append(ext, Xor(ext[Len(ext) + 1 - n], ext[Len(ext) + 1 - t])), n, t, len)
\* seed register r: bit j = a[-j]  =>  ext starts as <<r[n], r[n-1], ..., r[1]>> = a[1-n..0]
Recurrence(r, n, t, len) ==
  LET ext0 == [i \in 1..n |-> r[n + 1 - i]]
      ext  == RecExt(ext0, n, t, len)
  IN  [m \in 1..len |-> ext[n - 1 + m]]             \* a[0..len-1]

\* ---- seed normalisation ----
\* Python: seed % 2**n for any int (negative included), 0 -> 1 with a warning, None -> all ones.
\* `mag` = bits of |seed| (little endian, any length), `neg` = sign.
LowBits(mag, n) == [k \in 1..n |-> IF k <= Len(mag) THEN mag[k] ELSE 0]
RECURSIVE AddOne(_, _)
AddOne(b, k) == IF k > Len(b) THEN b                \* overflow drops (mod 2^n)
                ELSE IF b[k] = 0 THEN [b EXCEPT ![k] = 1]
                ELSE AddOne([b EXCEPT ![k] = 0], k + 1)
TwosComplement(b) == AddOne([k \in 1..Len(b) |-> 1 - b[k]], 1)
IsZero(b) == \A k \in 1..Len(b) : b[k] = 0
One(n) == [k \in 1..n |-> IF k = 1 THEN 1 ELSE 0]
AllOnes(n) == [k \in 1..n |-> 1]
SeedMod(neg, mag, n) == IF neg THEN TwosComplement(LowBits(mag, n)) ELSE LowBits(mag, n)
\* <<register, warned>>
SeedNorm(given, neg, mag, n) ==
  IF ~given THEN <<AllOnes(n), FALSE>>
  ELSE LET s == SeedMod(neg, mag, n) IN IF IsZero(s) THEN <<One(n), TRUE>> ELSE <<s, FALSE>>

\* argument verdict (the code normalises the seed first, then checks len, then order)
\* lenKind in {"none","int","float","str","bool"}, lenSign in {-1,0,1}
\* admissible outcomes of the argument validation: each fault has its documented error; when several arguments are
\* faulty at once the statement does not say which is reported first, so any of their errors is admissible
Verdicts(order, lenKind, lenSign) ==
  LET faults == (IF lenKind \notin {"none", "int", "bool"} THEN {"TypeError"} ELSE {})
                \cup (IF lenKind \in {"int", "bool"} /\ lenSign <= 0 THEN {"ValueError"} ELSE {})
                \cup (IF order \notin Orders THEN {"ValueError"} ELSE {})
  IN  IF faults = {} THEN {"ok"} ELSE faults

\* ---- integer form for small orders ----
StepInt(s, n, t) == ((2 * s) + (((s \div Pow2(n - 1)) + (s \div Pow2(t - 1))) % 2)) % Pow2(n)
OutInt(s) == s % 2
RECURSIVE BitsToIntFrom(_, _)
BitsToIntFrom(r, i) == IF i > Len(r) THEN 0 ELSE r[i] * Pow2(i - 1) + BitsToIntFrom(r, i + 1)
BitsToInt(r) == BitsToIntFrom(r, 1)

\* ---- linear-map form: one clock as a matrix over GF(2), used by GF2.tla ----
\* image of basis vector e_i (as the set of basis vectors with coefficient 1)
StepImg(i, n, t) == (IF i < n - 1 THEN {i + 1} ELSE {}) \cup (IF i = n - 1 \/ i = t - 1 THEN {0} ELSE {})
SymDiff(A, B) == (A \ B) \cup (B \ A)
RECURSIVE XorAll(_, _)
XorAll(S, A) == IF S = {} THEN {} ELSE LET j == CHOOSE x \in S : TRUE IN SymDiff(A[j], XorAll(S \ {j}, A))
StepMatrix(n, t) == [i \in 0 .. (n - 1) |-> StepImg(i, n, t)]

\* ---- set form, cycle model ----
StepSet(S, n, t) == {k + 1 : k \in S \ {n - 1}} \cup
                    (IF ((n - 1) \in S) # ((t - 1) \in S) THEN {0} ELSE {})
SetToBits(S, n) == [k \in 1..n |-> IF (k - 1) \in S THEN 1 ELSE 0]
RECURSIVE SetToInt(_)
SetToInt(S) == IF S = {} THEN 0 ELSE LET x == CHOOSE y \in S : TRUE IN Pow2(x) + SetToInt(S \ {x})
=============================================================================
