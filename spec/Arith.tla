-------------------------------- MODULE Arith --------------------------------
(* Exact arithmetic shared by the numeric specifications: Gaussian integers <<re, im>> and
   rationals <<num, den>> (den > 0, not necessarily reduced; compare with RatEq/RatLeq). *)
EXTENDS Integers, Sequences
CAdd(a, b) == <<a[1] + b[1], a[2] + b[2]>>
CSub(a, b) == <<a[1] - b[1], a[2] - b[2]>>
CNeg(a)    == <<-a[1], -a[2]>>
CMul(a, b) == <<a[1] * b[1] - a[2] * b[2], a[1] * b[2] + a[2] * b[1]>>
CScale(k, a) == <<k * a[1], k * a[2]>>
CNorm2(a)  == a[1] * a[1] + a[2] * a[2]
CZero == <<0, 0>>
\* multiplication by j^k
RECURSIVE CRot(_, _)
CRot(a, k) == LET q == k % 4 IN
              IF q = 0 THEN a ELSE IF q = 1 THEN <<-a[2], a[1]>> ELSE IF q = 2 THEN <<-a[1], -a[2]>> ELSE <<a[2], -a[1]>>
Abs(x) == IF x < 0 THEN -x ELSE x
Max(a, b) == IF a >= b THEN a ELSE b
Min(a, b) == IF a <= b THEN a ELSE b
RatEq(p, q)  == p[1] * q[2] = q[1] * p[2]
RatLeq(p, q) == p[1] * q[2] <= q[1] * p[2]
RatAdd(p, q) == <<p[1] * q[2] + q[1] * p[2], p[2] * q[2]>>
RatMul(p, q) == <<p[1] * q[1], p[2] * q[2]>>
RECURSIVE SumSeq(_, _)
SumSeq(s, i) == IF i > Len(s) THEN 0 ELSE s[i] + SumSeq(s, i + 1)
=============================================================================
