----------------------------- MODULE MC_Signals -----------------------------
(* Bounded instance + replay wrapper for Signals.tla: initial heaps are all ordered pairs of
   representative objects of one class; every distinct state is printed as JSON (invariant Emit). *)
EXTENDS Signals, Json
R(s) == [i \in 1..Len(s) |-> <<s[i], 0>>]                 \* real row from integers
E(sig, noise) == Obj("E", 1, <<sig>>, IF noise = <<>> THEN <<>> ELSE <<noise>>, noise # <<>>)
O1(sig, noise) == Obj("O", 1, <<sig>>, IF noise = <<>> THEN <<>> ELSE <<noise>>, noise # <<>>)
O2(x, y, nx, ny) == Obj("O", 2, <<x, y>>, IF nx = <<>> THEN <<>> ELSE <<nx, ny>>, nx # <<>>)
c3 == <<<<1, 0>>, <<-1, 0>>, <<2, 1>>>>
d3 == <<<<0, 1>>, <<1, 1>>, <<-2, 0>>>>
c5 == <<<<1, 0>>, <<0, 1>>, <<2, 0>>, <<3, 0>>, <<1, 1>>>>
Es == {E(R(<<2>>), <<>>), E(R(<<1>>), <<<<0, 1>>>>), E(c3, <<>>), E(R(<<2, 0, 1>>), R(<<1, 1, -1>>)),
       E(R(<<1, 2>>), <<>>), E(c5, R(<<0, 1, 0, -1, 2>>))}
Os == {O1(c3, <<>>), O1(R(<<2, 0, 1>>), d3), O1(R(<<3>>), R(<<1>>)),
       O2(c3, d3, <<>>, <<>>), O2(R(<<1, 2, 3>>), c3, d3, R(<<1, 0, 0>>)),
       O2(R(<<2>>), <<<<0, 1>>>>, <<>>, <<>>), O2(c5, R(<<1, 1, 1, 1, 1>>), R(<<1, 0, 1, 0, 1>>), c5)}
PoolPairs == {<<a, b>> : a \in Es, b \in Es} \cup {<<a, b>> : a \in Os, b \in Os}
PoolSingles == {<<a>> : a \in Es \cup Os}
Emit == PrintT(<<"EV", ToJson([heap |-> heap, last |-> last])>>)
=============================================================================
