------------------------------- MODULE LinkTrace -------------------------------
(* C03, bindings R and T: chains of real blocks, recorded stage by stage.
     chain [sent, stages: sequence of [name, cls, npol, len], nslots, sps, npol, inv, high, decoded, eye_open]
             stages are the real objects after DAC, MZM, (DM|FIBER), PD, SAMPLER; `high` = SAMPLER(...) > mid-threshold as bits
     dsp   [fn, sent, decoded]            packaged decision routines (ook.DSP, ppm.DSP soft / hard)
     ber   [k, n, count, exact]           BER_analizer('counter') * n (an integer) for k injected flips                      *)
EXTENDS Integers, Sequences, TLC, Json, IOUtils
Trace == ndJsonDeserialize(IOEnv.IN_FILE)
Want(e, name) == CASE name = "DAC" -> [cls |-> "E", npol |-> 1, len |-> e.nslots * e.sps]
                   [] name \in {"MZM", "DM", "FIBER"} -> [cls |-> "O", npol |-> e.npol, len |-> e.nslots * e.sps]
                   [] name = "PD" -> [cls |-> "E", npol |-> 1, len |-> e.nslots * e.sps]
                   [] name = "SAMPLER" -> [cls |-> "E", npol |-> 1, len |-> e.nslots]
Decoded(c, inv) == [i \in 1..Len(c) |-> IF inv THEN 1 - c[i] ELSE c[i]]
Clauses(e) ==
  CASE e.kind = "chain" ->
        (IF \E i \in 1..Len(e.stages) : [cls |-> e.stages[i].cls, npol |-> e.stages[i].npol, len |-> e.stages[i].len] # Want(e, e.stages[i].name)
           THEN {"inter-block-interface"} ELSE {}) \cup
        (IF ~e.eye_open THEN {"eye-closed-at-slot-centre"} ELSE {}) \cup
        (IF Len(e.high) # Len(e.sent) THEN {"one-decision-per-slot"} ELSE IF Decoded(e.high, e.inv) # e.sent THEN {"decoded-bits"} ELSE {}) \cup
        (IF e.decoded # e.sent THEN {"decoded-bits-api"} ELSE {})
    [] e.kind = "dsp" -> IF e.decoded # e.sent THEN {e.fn} ELSE {}
    [] e.kind = "ber" -> IF ~e.exact \/ e.count # e.k THEN {"BER-counter"} ELSE {}       \* reported value * n is the integer k
Bad == UNION {{<<i, c>> : c \in Clauses(Trace[i])} : i \in 1..Len(Trace)}
ASSUME JsonSerialize(IOEnv.OUT_FILE, [n |-> Len(Trace), bad |-> Bad])
=============================================================================
