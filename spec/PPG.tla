--------------------------------- MODULE PPG ---------------------------------
(* C20 - the PPG3204 pattern generator driver (opticomlib.lab) against a simulated instrument.
   Values are integers in instrument units:  frequency 0.1 GHz, amplitude/offset 0.1 V, skew 1 ps,
   pattern length bits, PRBS order.  A driver call emits a sequence of commands [verb, ch, val]
   (for data blocks [verb, ch, addr, n, digits, bits]).  Design behaviour: out-of-range requests are
   clamped with a warning, never raised, never sent raw; data are split in blocks of <= Chunk bits
   at consecutive addresses with an IEEE-488.2 header; get_data returns the stored bits. *)
EXTENDS Integers, Sequences, FiniteSets, TLC
CONSTANTS Chunk, MaxMem
NCh == 4
Lim == [freq |-> <<15, 320>>, amp |-> <<3, 20>>, offs |-> <<-20, 30>>, skew |-> <<-25, 25>>, plen |-> <<2, MaxMem>>]
Orders == <<7, 9, 11, 15, 23, 31>>
Verb == [freq |-> "FREQ", amp |-> "VOLT:POS", offs |-> "VOLT:OFFS", skew |-> "SKEW", plen |-> "PATT:LENG", order |-> "PATT:PLEN"]
\* unlimited per-channel settings: pattern type (DATA = 0, PRBS = 1), output switch (OFF = 0, ON = 1), bit shift (any integer)
FlagVerbs == {"PATT:TYPE", "OUTP"}

Clip(v, lo, hi) == IF v < lo THEN lo ELSE IF v > hi THEN hi ELSE v
Abs(x) == IF x < 0 THEN -x ELSE x
\* nearest supported PRBS order (first one on ties)
NearestOrder(v) == LET d(i) == Abs(Orders[i] - v)
                       best == CHOOSE i \in 1..Len(Orders) : \A j \in 1..Len(Orders) : d(i) < d(j) \/ (d(i) = d(j) /\ i <= j)
                   IN Orders[best]
InOrders(v) == \E i \in 1..Len(Orders) : Orders[i] = v
Clamp(q, v) == IF q = "order" THEN NearestOrder(v) ELSE Clip(v, Lim[q][1], Lim[q][2])
InRange(q, v) == IF q = "order" THEN InOrders(v) ELSE v >= Lim[q][1] /\ v <= Lim[q][2]

\* channel selection: <<>> = None (all channels); otherwise the list given (an int is a one-element list)
Channels(sel) == IF sel = <<>> THEN [i \in 1..NCh |-> i]
                 ELSE [i \in 1..(IF Len(sel) > NCh THEN NCh ELSE Len(sel)) |-> Clip(sel[i], 1, NCh)]
ChWarn(sel) == sel # <<>> /\ (Len(sel) > NCh \/ \E i \in 1..Len(sel) : sel[i] < 1 \/ sel[i] > NCh)

\* per-channel requests: scalar (tiled) or list (zipped with the channels, shorter one wins)
Requests(req, scalar, chs) == IF scalar THEN [i \in 1..Len(chs) |-> req[1]]
                              ELSE [i \in 1..(IF Len(req) < Len(chs) THEN Len(req) ELSE Len(chs)) |-> req[i]]
\* commands of one setter call
SetCmds(q, req, scalar, sel) ==
  IF q = "freq" THEN << [verb |-> Verb[q], ch |-> 0, val |-> Clamp(q, req[1])] >>
  ELSE LET chs == Channels(sel)  rq == Requests(req, scalar, chs) IN
       [i \in 1..Len(rq) |-> [verb |-> Verb[q], ch |-> chs[i], val |-> Clamp(q, rq[i])]]
\* warning: MUST be issued when a channel is out of range or a request that is actually used is out of range; MUST NOT be issued
\* when every channel and every request element is in range; not fixed when only request elements that no channel consumes are out
\* of range (a per-channel list longer than the channel selection)
UsedVals(q, req, scalar, sel) == IF q = "freq" \/ scalar THEN <<req[1]>> ELSE Requests(req, scalar, Channels(sel))
MustWarn(q, req, scalar, sel) ==
  (q # "freq" /\ ChWarn(sel)) \/ (LET u == UsedVals(q, req, scalar, sel) IN \E i \in 1..Len(u) : ~InRange(q, u[i]))
MustNotWarn(q, req, scalar, sel) ==
  ~(q # "freq" /\ ChWarn(sel)) /\ (LET vals == IF q = "freq" \/ scalar THEN <<req[1]>> ELSE req IN \A i \in 1..Len(vals) : InRange(q, vals[i]))
SetWarn(q, req, scalar, sel) == MustWarn(q, req, scalar, sel)
WarnOK(q, req, scalar, sel, warned) == (MustWarn(q, req, scalar, sel) => warned) /\ (MustNotWarn(q, req, scalar, sel) => ~warned)
CmdOK(c) == /\ (c.verb = "FREQ" => c.ch = 0) /\ (c.verb # "FREQ" => c.ch \in 1..NCh)
            /\ \/ \E q \in DOMAIN Verb : Verb[q] = c.verb /\ InRange(q, c.val)
               \/ c.verb \in FlagVerbs /\ c.val \in {0, 1}
               \/ c.verb = "PATT:BSH"
\* per-channel flag / shift commands
FlagCmds(verb, val, sel) == LET chs == Channels(sel) IN [i \in 1..Len(chs) |-> [verb |-> verb, ch |-> chs[i], val |-> val]]
\* the composite call ppg(freq, patt_len, Vout, offset, bsh, skew, mode, order, data, CHs): the individual setters in this fixed order;
\* each argument is <<>> (not given) or <<v>>; order only with mode PRBS (1), data only with mode DATA (0)
Opt(q, a, sel) == IF a = <<>> THEN <<>> ELSE SetCmds(q, a, TRUE, sel)
ConfigSetCmds(c, sel) ==
  Opt("freq", c.freq, sel) \o Opt("plen", c.plen, sel) \o Opt("amp", c.amp, sel) \o Opt("offs", c.offs, sel)
  \o (IF c.bsh = <<>> THEN <<>> ELSE FlagCmds("PATT:BSH", c.bsh[1], sel)) \o Opt("skew", c.skew, sel)
  \o (IF c.mode = <<>> THEN <<>> ELSE FlagCmds("PATT:TYPE", c.mode[1], sel))
  \o (IF c.order # <<>> /\ c.mode = <<1>> THEN SetCmds("order", c.order, TRUE, sel) ELSE <<>>)
ConfigSendsData(c) == c.data # <<>> /\ c.mode = <<0>>
ConfigMustWarn(c, sel) ==
  \/ \E q \in {"freq", "plen", "amp", "offs", "skew"} : c[q] # <<>> /\ MustWarn(q, c[q], TRUE, sel)
  \/ (c.order # <<>> /\ c.mode = <<1>> /\ MustWarn("order", c.order, TRUE, sel))
  \/ ((c.bsh # <<>> \/ c.mode # <<>> \/ ConfigSendsData(c) \/ \E q \in {"plen", "amp", "offs", "skew"} : c[q] # <<>>) /\ ChWarn(sel))

\* ---- instrument settings: what the (simulated) instrument holds per <<verb, channel>>, and the queries that read it back
SettingVerbs == {Verb[q] : q \in DOMAIN Verb} \cup FlagVerbs \cup {"PATT:BSH"}
DefaultSetting(verb) == CASE verb = "FREQ" -> 100 [] verb = "VOLT:POS" -> 10 [] verb = "PATT:LENG" -> 2 [] verb = "PATT:PLEN" -> 7 [] OTHER -> 0
Setting(cfg, verb, ch) == IF <<verb, ch>> \in DOMAIN cfg THEN cfg[<<verb, ch>>] ELSE DefaultSetting(verb)
RECURSIVE ApplyFrom(_, _, _)
ApplyFrom(cfg, cmdseq, i) ==
  IF i > Len(cmdseq) THEN cfg
  ELSE LET c == cmdseq[i] IN
       IF c.verb \in SettingVerbs THEN ApplyFrom((<<c.verb, c.ch>> :> c.val) @@ cfg, cmdseq, i + 1) ELSE ApplyFrom(cfg, cmdseq, i + 1)
ApplySettings(cfg, cmdseq) == ApplyFrom(cfg, cmdseq, 1)
\* get_<quantity>(CHs): one query per normalised channel, values as held by the instrument (frequency is global: channel 0)
GetVerb(q) == IF q \in DOMAIN Verb THEN Verb[q] ELSE q
GetChannels(q, sel) == IF q = "freq" THEN <<0>> ELSE Channels(sel)
GetVals(cfg, q, sel) == LET chs == GetChannels(q, sel) IN [i \in 1..Len(chs) |-> Setting(cfg, GetVerb(q), chs[i])]
GetQueries(q, sel) == LET chs == GetChannels(q, sel) IN [i \in 1..Len(chs) |-> [verb |-> GetVerb(q) \o "?", ch |-> chs[i], val |-> 0]]

\* ---- data blocks
Digits(n) == IF n < 10 THEN 1 ELSE IF n < 100 THEN 2 ELSE IF n < 1000 THEN 3 ELSE IF n < 10000 THEN 4 ELSE IF n < 100000 THEN 5 ELSE IF n < 1000000 THEN 6 ELSE 7
RECURSIVE Blocks(_, _, _)
Blocks(bits, addr, ch) ==
  IF Len(bits) = 0 THEN <<>>
  ELSE LET n == IF Len(bits) > Chunk THEN Chunk ELSE Len(bits) IN
       << [verb |-> "PATT:DATA", ch |-> ch, addr |-> addr, n |-> n, digits |-> Digits(n), bits |-> SubSeq(bits, 1, n)] >>
       \o Blocks(SubSeq(bits, n + 1, Len(bits)), addr + n, ch)
\* set_data(bits, addr, sel): the same data for every selected channel; data beyond the memory end is cut
Fit(bits, addr) == IF Len(bits) > MaxMem - addr + 1 THEN SubSeq(bits, 1, MaxMem - addr + 1) ELSE bits
RECURSIVE DataCmdsFrom(_, _, _, _)
DataCmdsFrom(bits, addr, chs, i) == IF i > Len(chs) THEN <<>> ELSE Blocks(bits, addr, chs[i]) \o DataCmdsFrom(bits, addr, chs, i + 1)
DataCmds(bits, addr, sel) == DataCmdsFrom(Fit(bits, addr), addr, Channels(sel), 1)
BlockOK(c) == c.ch \in 1..NCh /\ c.n >= 1 /\ c.n <= Chunk /\ c.n = Len(c.bits) /\ c.digits = Digits(c.n)
              /\ c.addr >= 1 /\ c.addr + c.n - 1 <= MaxMem
\* instrument memory, paged: function from <<ch, page>> to a sequence of Chunk bits (unwritten = 0);
\* address a (1-based) lives in page (a-1) \div Chunk at offset ((a-1) % Chunk) + 1
PageOf(a) == (a - 1) \div Chunk
ZeroPage == [j \in 1..Chunk |-> 0]
GetPage(mem, ch, p) == IF <<ch, p>> \in DOMAIN mem THEN mem[<<ch, p>>] ELSE ZeroPage
WriteBlock(mem, c) ==
  LET pages == {<<c.ch, p>> : p \in PageOf(c.addr)..PageOf(c.addr + c.n - 1)}
      NewPage(k) == [j \in 1..Chunk |->
                       LET a == k[2] * Chunk + j IN
                       IF a >= c.addr /\ a < c.addr + c.n THEN c.bits[a - c.addr + 1] ELSE GetPage(mem, k[1], k[2])[j]]
  IN  [k \in (DOMAIN mem) \cup pages |-> IF k \in pages THEN NewPage(k) ELSE mem[k]]
RECURSIVE StoreFrom(_, _, _)
StoreFrom(mem, cmdseq, i) == IF i > Len(cmdseq) THEN mem ELSE StoreFrom(WriteBlock(mem, cmdseq[i]), cmdseq, i + 1)
Store(mem, cmdseq) == StoreFrom(mem, cmdseq, 1)
Read(mem, ch, addr, size) == [j \in 1..size |-> LET a == addr + j - 1 IN GetPage(mem, ch, PageOf(a))[((a - 1) % Chunk) + 1]]
=============================================================================
