--------------------------- MODULE GlobalGridTrace ---------------------------
(* C14, binding T (stateful): a history of gv(...) / gv.clean() calls recorded on the real
   singleton, each event carrying the arguments and the projected state after the call.
   TraceNext re-uses the design actions and requires the primed variables to equal the log. *)
EXTENDS GlobalGrid, Json, IOUtils
Trace == ndJsonDeserialize(IOEnv.IN_FILE)
VARIABLE l
TraceInit == Init /\ l = 1
Matches(e) == /\ sps' = e.state.sps /\ R' = e.state.R /\ fs' = e.state.fs /\ wl' = e.state.wl
              /\ N' = e.state.N /\ grid' = e.state.grid /\ custom' = {e.state.custom[i] : i \in 1..Len(e.state.custom)}
TraceCall == /\ l <= Len(Trace) /\ Trace[l].op = "call" /\ l' = l + 1
             /\ LET e == Trace[l] IN
                Call(e.sps, e.R, e.fs, e.wl, e.N, {e.keys[i] : i \in 1..Len(e.keys)}) /\ Matches(e)
TraceClean == l <= Len(Trace) /\ Trace[l].op = "clean" /\ l' = l + 1 /\ Clean /\ Matches(Trace[l])
\* a new history starts (the harness called clean() and begins another trace)
TraceNext == TraceCall \/ TraceClean
TraceSpec == TraceInit /\ [][TraceNext]_<<vars, l>>
\* Verdict: the trace is a single chain (every event fully determines the next state), so states are
\* visited in order of l; each visited state records the prefix matched so far, and the last record
\* written is the longest prefix the specification explains.  Accepted iff matched = n.
Report == JsonSerialize(IOEnv.OUT_FILE, [matched |-> l - 1, n |-> Len(Trace)])
=============================================================================
