--------------------------------- MODULE Sci ---------------------------------
(* Floating-point observables inside TLC: a "Sci" number is <<m, e>> = m * 10^e with |m| an
   8-digit integer mantissa (10^7 <= |m| < 10^8, or m = 0).  The harness converts a double to this
   form (generic representation change); comparisons are done here with stated tolerances.
   QTab[k] = Q(k) = erfc(k/sqrt 2)/2 for k = 0..8, computed once with mpmath (30 digits) and
   rounded to 8 digits - a mathematical constant table, not produced by the code under test. *)
EXTENDS Integers, Sequences
SAbs(x) == IF x < 0 THEN -x ELSE x
\* |a - b| <= tol * 10^-8 * max(|a|,|b|) approximately: mantissa difference <= tol at equal exponent
SciClose(a, b, tol) ==
  IF a[1] = 0 \/ b[1] = 0 THEN (a[1] = 0 /\ b[1] = 0) \/ (a[1] = 0 /\ b[2] <= -300) \/ (b[1] = 0 /\ a[2] <= -300)
  ELSE IF a[2] = b[2] THEN SAbs(a[1] - b[1]) <= tol
  ELSE IF a[2] = b[2] + 1 THEN SAbs(10 * a[1] - b[1]) <= 10 * tol
  ELSE IF b[2] = a[2] + 1 THEN SAbs(10 * b[1] - a[1]) <= 10 * tol
  ELSE FALSE
\* a <= b for positive Sci numbers (with slack `tol` mantissa units)
SciLeq(a, b, tol) ==
  IF a[1] <= 0 THEN TRUE ELSE IF b[1] <= 0 THEN FALSE
  ELSE IF a[2] = b[2] THEN a[1] <= b[1] + tol
  ELSE IF a[2] < b[2] THEN TRUE        \* mantissas normalised: smaller exponent = smaller number
  ELSE FALSE
QTab == << <<50000000, -8>>, <<15865525, -8>>, <<22750132, -9>>, <<13498980, -10>>, <<31671242, -12>>,
           <<28665157, -14>>, <<98658765, -17>>, <<12798125, -19>>, <<62209606, -23>> >>    \* QTab[k+1] = Q(k)
=============================================================================
