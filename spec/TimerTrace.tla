----------------------------- MODULE TimerTrace -----------------------------
(* Supplementary, binding T: recorded tic()/toc()/device calls on the real library with the depth of the timer stack after
   each event (read from utils._timer_instance) and times in microseconds.
     tic    [depth]
     toc    [depth, raised, elapsed_us, since_us]      since_us: harness clock since the entry that was on top
     device [name, depth, raised, exec_us, wall_us]    exec_us: execution_time stamped on the result (-1: none)    *)
EXTENDS Integers, Sequences, TLC, Json, IOUtils
Trace == ndJsonDeserialize(IOEnv.IN_FILE)
Before(i) == IF i = 1 THEN 0 ELSE Trace[i - 1].depth
Clauses(i) ==
  LET e == Trace[i]  d == Before(i) IN
  CASE e.kind = "tic" -> IF e.depth # d + 1 THEN {"tic-pushes-one"} ELSE {}
    [] e.kind = "toc" -> IF d = 0 THEN (IF ~e.raised \/ e.depth # 0 THEN {"toc-on-empty-stack-raises"} ELSE {})
                         ELSE (IF e.raised \/ e.depth # d - 1 THEN {"toc-pops-one"} ELSE {}) \cup
                              (IF ~e.raised /\ (e.elapsed_us < 0 \/ e.elapsed_us > e.since_us + 2000 \/ e.elapsed_us + 2000 < e.since_us) THEN {"toc-pairs-with-most-recent-tic"} ELSE {})
    [] e.kind = "device" -> IF ~e.raised THEN (IF e.depth # d THEN {"returning-call-balanced"} ELSE {}) \cup
                                             (IF e.exec_us >= 0 /\ e.exec_us > e.wall_us + 2000 THEN {"execution_time-within-the-call"} ELSE {})
                            ELSE (IF e.depth = d + 1 THEN {"NOTE-leak-on-error"} ELSE IF e.depth # d THEN {"failing-call-depth"} ELSE {})
Bad == UNION {{<<i, c>> : c \in Clauses(i)} : i \in 1..Len(Trace)}
ASSUME JsonSerialize(IOEnv.OUT_FILE, [n |-> Len(Trace), bad |-> Bad])
=============================================================================
