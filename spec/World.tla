-------------------------------- MODULE World --------------------------------
(* C14 - purity of the device / codec / DSP functions.
   The world is (gv digest, numpy RNG state digest, memo of results).  The gv digest stands for all process-wide configuration a
   later call can observe: the attributes of the gv singleton and numpy's floating-point error policy (np.seterr) - a function that
   leaves 'raise' behind changes what db(0) does afterwards.  A public function call
     - leaves gv and its arguments untouched                                   (Frame)
     - leaves the RNG untouched if the function is deterministic               (RngFrame)
     - returns a value that is a function of (name, arguments, gv[, RNG state]) (Determinism)
     - returns buffers that do not alias its arguments                          (NoAlias)
   Digests are interned to integers by the harness.  The design actions below are the ones the
   trace specification WorldTrace.tla re-uses. *)
EXTENDS Integers, Sequences, FiniteSets, TLC
CONSTANTS Funcs, Deterministic, Digests, ArgVals
ASSUME Deterministic \subseteq Funcs
VARIABLES gvd, rng, memo
wvars == <<gvd, rng, memo>>
Key(f, args, g, r) == IF f \in Deterministic THEN <<f, args, g, 0>> ELSE <<f, args, g, r>>
Known(k) == k \in DOMAIN memo
Init == gvd \in Digests /\ rng \in Digests /\ memo = <<>>
Seed(r) == rng' = r /\ UNCHANGED <<gvd, memo>>
Configure(g) == gvd' = g /\ UNCHANGED <<rng, memo>>          \* gv(...) / gv.clean(): user actions, never a device's
Invoke(f, args, res, rngAfter) ==
  LET k == Key(f, args, gvd, rng) IN
  /\ gvd' = gvd
  /\ rng' = IF f \in Deterministic THEN rng ELSE rngAfter
  /\ (f \in Deterministic => rngAfter = rng)
  /\ IF Known(k) THEN res = memo[k] /\ memo' = memo ELSE memo' = (k :> res) @@ memo
Next == \/ \E r \in Digests : Seed(r)
        \/ \E g \in Digests : Configure(g)
        \/ \E f \in Funcs, a \in ArgVals, res \in Digests, r2 \in Digests : Invoke(f, a, res, r2)
Spec == Init /\ [][Next]_wvars
\* repeating a call in the same (gv, RNG) situation can only return the recorded value
Reproducible == [][\A k \in DOMAIN memo : k \in DOMAIN memo' /\ memo'[k] = memo[k]]_wvars
=============================================================================
