------------------------------- MODULE DacTrace -------------------------------
(* C05, binding T.  Events (amplitudes are volts*64 as integers):
     dac      [shape, sps, bits, vout, bias, wave]
     sampler  [sps, k, x, noise, out, outnoise]         noise = <<>> when absent
     decide   [shape, sps, k, bits, vout, bias, samples] SAMPLER(DAC(bits), k) values
     gauss    [sps, T, m, idx, peakppm, fwhm, len, nbits, rxbits, bits]
     eqwave   [ppt]                                      DAC(bits, BW=B) against LPF(DAC(bits), B), relative residual
     verdict  [fault, raised]                                                        *)
EXTENDS DacSampler, Json, IOUtils
Trace == ndJsonDeserialize(IOEnv.IN_FILE)
Clauses(e) ==
  CASE e.kind = "dac" -> (IF Len(e.wave) # Len(e.bits) * e.sps THEN {"length"} ELSE {}) \cup
                         (IF e.wave # Dac(e.bits, e.sps, e.shape, e.vout, e.bias) THEN {"slot-exact"} ELSE {})
    [] e.kind = "sampler" -> (IF e.out # Sampler(e.x, e.sps, e.k) THEN {"sampler-signal"} ELSE {}) \cup
                             (IF Len(e.noise) > 0 /\ e.outnoise # Sampler(e.noise, e.sps, e.k) THEN {"sampler-noise"} ELSE {}) \cup
                             (IF Len(e.noise) = 0 /\ e.outnoise # <<>> THEN {"sampler-noise-invented"} ELSE {})
    [] e.kind = "decide" -> IF e.vout # 0 /\ InsidePulse(e.shape, e.sps, e.k) /\ Decide(e.samples, e.vout, e.bias) # e.bits THEN {"sampler-inverts-dac"} ELSE {}
    [] e.kind = "gauss" -> (IF e.len # e.nbits * e.sps THEN {"length"} ELSE {}) \cup
                           (IF ~GaussOK(e.sps, e.T, e.idx, e.peakppm, e.fwhm) THEN {"gaussian-pulse-bands"} ELSE {}) \cup
                           (IF e.rxbits # e.bits THEN {"gaussian-sampler-inverts-dac"} ELSE {})
    [] e.kind = "verdict" -> IF e.raised # Verdict(e.fault) THEN {"verdict"} ELSE {}
    [] e.kind = "eqwave" -> IF e.ppt > 1000 THEN {"DAC(BW)=LPF(DAC)"} ELSE {}
Bad == UNION {{<<i, c>> : c \in Clauses(Trace[i])} : i \in 1..Len(Trace)}
ASSUME JsonSerialize(IOEnv.OUT_FILE, [n |-> Len(Trace), bad |-> Bad])
=============================================================================
