------------------------------ MODULE ChannelTrace ------------------------------
(* C07, bindings E and T: residuals of the algebraic laws on off-lattice inputs and energy ratios,
   measured on the real DM / FIBER and judged here.  Residuals are relative (max|lhs-rhs|/max|rhs|)
   in parts per 10^12; energy ratios in parts per 10^9 of the expected ratio.
     law    [name, ppt]          one of Laws
     energy [kind, ppb, dB]      |E_out / (E_in * 10^(-dB/10)) - 1| in ppb, per polarisation
     shape  [same]               class / layout / length preserved                               *)
EXTENDS Integers, Sequences, TLC, Json, IOUtils
Trace == ndJsonDeserialize(IOEnv.IN_FILE)
Laws == {"DM(-D)oDM(D)=id", "DM(D1)oDM(D2)=DM(D1+D2)", "FIBER(L,b2)=DM(b2*L)", "two-spans=one-span", "retH-is-the-applied-filter",
         "1pol=row-of-2pol", "lattice-output"}
\* double rounding through two FFT pairs: 1e-9 relative is generous; the library writes 10/ln(10) as 4.343
\* (relative error 1.3e-5 in the exponent), so laws that involve attenuation get 2e-4 per 10 dB.
LawTol(e) == 1000 + e.dB * 20000
Clauses(e) ==
  CASE e.kind = "law" -> IF e.name \notin Laws THEN {"unknown-law"} ELSE IF e.ppt \div 1000 > LawTol(e) THEN {e.name} ELSE {}
    [] e.kind = "energy" -> IF e.ppb > 1000 + e.dB * 20000 THEN {"energy-" \o e.what} ELSE {}
    [] e.kind = "shape" -> IF ~e.same THEN {"shape-not-preserved"} ELSE {}
Bad == UNION {{<<i, c>> : c \in Clauses(Trace[i])} : i \in 1..Len(Trace)}
ASSUME JsonSerialize(IOEnv.OUT_FILE, [n |-> Len(Trace), bad |-> Bad])
=============================================================================
