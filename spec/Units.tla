--------------------------------- MODULE Units ---------------------------------
(* Physical formulas as monomials, so that TLC can check dimensions and compare the formula used
   at different sites (devices.PD, devices.EDFA, utils.noise_variances, utils.theory_BER, ...).
   A monomial is [coef: <<num, den>>, pow: symbol -> integer exponent].  Symbols:
     kB (J/K)  T (K)  e (C)  h (J s)  f0 (Hz)  fs (Hz)  B (Hz)  Bopt (Hz)  R (ohm)  r (A/W)  P (W)
     Fn, NF, G1 (= G-1), G, l (dimensionless).
   Dimensions are vectors over (kg, m, s, A, K). *)
EXTENDS Integers, Sequences, FiniteSets, TLC
Symbols == {"kB", "T", "e", "h", "f0", "fs", "B", "Bopt", "R", "r", "P", "Fn", "NF", "G1", "G", "l", "idark", "mu"}
Dim(s) == CASE s = "kB" -> <<1, 2, -2, 0, -1>> [] s = "T" -> <<0, 0, 0, 0, 1>> [] s = "e" -> <<0, 0, 1, 1, 0>>
            [] s = "h" -> <<1, 2, -1, 0, 0>> [] s \in {"f0", "fs", "B", "Bopt"} -> <<0, 0, -1, 0, 0>>
            [] s = "R" -> <<1, 2, -3, -2, 0>> [] s = "r" -> <<-1, -2, 3, 1, 0>> [] s = "P" -> <<1, 2, -3, 0, 0>>
            [] s = "idark" -> <<0, 0, 0, 1, 0>> [] s = "mu" -> <<1, 2, -3, -1, 0>>
            [] OTHER -> <<0, 0, 0, 0, 0>>
Watt == <<1, 2, -3, 0, 0>>
Amp2 == <<0, 0, 0, 2, 0>>
Volt2 == <<2, 4, -6, -2, 0>>
Mono(c, p) == [coef |-> c, pow |-> p]
Exp(m, s) == IF s \in DOMAIN m.pow THEN m.pow[s] ELSE 0
RECURSIVE DimSum(_, _)
DimSum(m, S) == IF S = {} THEN <<0, 0, 0, 0, 0>>
                ELSE LET s == CHOOSE x \in S : TRUE  d == Dim(s)  rest == DimSum(m, S \ {s}) IN
                     [i \in 1..5 |-> m.pow[s] * d[i] + rest[i]]
DimOf(m) == DimSum(m, DOMAIN m.pow)
SameMono(a, b) == a.coef[1] * b.coef[2] = b.coef[1] * a.coef[2] /\ \A s \in Symbols : Exp(a, s) = Exp(b, s)
Times(a, b) == Mono(<<a.coef[1] * b.coef[1], a.coef[2] * b.coef[2]>>,
                    [s \in (DOMAIN a.pow) \cup (DOMAIN b.pow) |-> Exp(a, s) + Exp(b, s)])
\* ---- the documented noise powers
\* ASE: total power NF h f0 (G-1) fs in both polarisations; each of the four real quadratures gets 1/4
AseTotal == Mono(<<1, 1>>, [s \in {"NF", "h", "f0", "G1", "fs"} |-> 1])
AseQuadrature == Mono(<<1, 4>>, [s \in {"NF", "h", "f0", "G1", "fs"} |-> 1])
\* photodetector: thermal 4 kB T Fn B / R_load, shot 2 e (r P + idark) B   [A^2], with B = fs/2
ThermalA2 == Mono(<<4, 1>>, [s \in {"kB", "T", "Fn", "B", "R"} |-> IF s = "R" THEN -1 ELSE 1])
ShotA2(current) == Mono(<<2, 1>>, [s \in {"e", "B"} \cup current |-> 1])       \* current: {"r","P"} or {"idark"}
\* receiver model in volts^2 (utils.noise_variances / utils.theory_BER): thermal 4 kB T B R Fn, shot 2 e mu B R (mu = level in volts)
ThermalV2 == Mono(<<4, 1>>, [s \in {"kB", "T", "Fn", "B", "R"} |-> 1])
ShotV2 == Mono(<<2, 1>>, [s \in {"e", "mu", "B", "R"} |-> 1])
R2 == Mono(<<1, 1>>, [s \in {"R"} |-> 2])
MuOverR == Mono(<<1, 1>>, [s \in {"mu", "R"} |-> IF s = "R" THEN -1 ELSE 1])
\* ASE behind an optical filter of bandwidth Bopt (utils.p_ase) and its voltage offset r * P_ase * R
PaseOpt == Mono(<<1, 1>>, [s \in {"NF", "h", "f0", "G1", "Bopt"} |-> 1])
MuAse == Mono(<<1, 1>>, [s \in {"NF", "h", "f0", "G1", "Bopt", "r", "R"} |-> 1])
\* ON-slot level without ASE: r * G * P_on * R
Level == Mono(<<1, 1>>, [s \in {"r", "G", "P", "R"} |-> 1])
ASSUME DimOf(ThermalV2) = Volt2 /\ DimOf(ShotV2) = Volt2 /\ DimOf(PaseOpt) = Watt /\ DimOf(MuAse) = <<1, 2, -3, -1, 0>> /\ DimOf(Level) = <<1, 2, -3, -1, 0>>
\* the device models (amperes^2) and the utils model (volts^2) are the same physics:  V^2 = A^2 * R^2, current = mu / R
ASSUME SameMono(Times(ThermalA2, R2), ThermalV2)
ASSUME SameMono(Times(Mono(<<2, 1>>, [s \in {"e", "B"} |-> 1]), Times(MuOverR, R2)), ShotV2)
ASSUME DimOf(AseTotal) = Watt
ASSUME DimOf(ThermalA2) = Amp2
ASSUME DimOf(ShotA2({"r", "P"})) = Amp2 /\ DimOf(ShotA2({"idark"})) = Amp2
=============================================================================
