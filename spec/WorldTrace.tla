----------------------------- MODULE WorldTrace -----------------------------
(* C14, binding T (stateful): a recorded history of seeds, gv reconfigurations and public function
   calls is followed step by step; the monitor keeps the world state of World.tla and collects,
   for every event, the clauses of the property that the event breaks (total verdict).
   Event: [kind, f, args, argsAfter, gvBefore, gvAfter, rngBefore, rngAfter, res, alias]. *)
EXTENDS Integers, Sequences, FiniteSets, TLC, Json, IOUtils
Trace == ndJsonDeserialize(IOEnv.IN_FILE)
Meta == JsonDeserialize(IOEnv.META_FILE)           \* [deterministic: sequence of function names]
Deterministic == {Meta.deterministic[i] : i \in 1..Len(Meta.deterministic)}
VARIABLES l, gvd, rng, memo, bad
tvars == <<l, gvd, rng, memo, bad>>
Key(f, args, g, r) == IF f \in Deterministic THEN <<f, args, g, 0>> ELSE <<f, args, g, r>>
Init == l = 1 /\ gvd = Trace[1].gvBefore /\ rng = Trace[1].rngBefore /\ memo = <<>> /\ bad = {}
Clauses(e) ==
  IF e.kind = "boundary" THEN {} ELSE         \* another interpreter / explicit set-up: world state is taken from the event
  (IF e.gvBefore # gvd THEN {"gv-changed-between-calls"} ELSE {}) \cup
  (IF e.rngBefore # rng THEN {"rng-changed-between-calls"} ELSE {}) \cup
  (IF e.kind = "invoke" THEN
     (IF e.gvAfter # e.gvBefore THEN {"gv-modified-by-function"} ELSE {}) \cup
     (IF e.argsAfter # e.args THEN {"argument-modified"} ELSE {}) \cup
     (IF e.alias THEN {"output-aliases-input"} ELSE {}) \cup
     (IF e.f \in Deterministic /\ e.rngAfter # e.rngBefore THEN {"rng-used-by-deterministic-function"} ELSE {}) \cup
     (LET k == Key(e.f, e.args, e.gvBefore, e.rngBefore) IN
      IF k \in DOMAIN memo /\ memo[k] # e.res THEN {"not-reproducible"} ELSE {})
   ELSE IF e.kind = "seed" THEN (IF e.gvAfter # e.gvBefore THEN {"gv-modified-by-seed"} ELSE {})
   ELSE (IF e.rngAfter # e.rngBefore THEN {"rng-used-by-gv"} ELSE {}))
Step == /\ l <= Len(Trace)
        /\ LET e == Trace[l] IN
           /\ bad' = bad \cup {<<l, c>> : c \in Clauses(e)}
           /\ gvd' = e.gvAfter /\ rng' = e.rngAfter
           /\ memo' = IF e.kind = "invoke" /\ Key(e.f, e.args, e.gvBefore, e.rngBefore) \notin DOMAIN memo
                      THEN (Key(e.f, e.args, e.gvBefore, e.rngBefore) :> e.res) @@ memo ELSE memo
        /\ l' = l + 1
Spec == Init /\ [][Step]_tvars
Done == (l = Len(Trace) + 1) => JsonSerialize(IOEnv.OUT_FILE, [n |-> Len(Trace), bad |-> bad])
=============================================================================
