---------------------------- MODULE SpectralModel ----------------------------
(* Bounded model of C02: every row of length 1, 2, 4 over a small alphabet (exact layer) and the
   index-map layer for every N <= MaxN. *)
EXTENDS Spectral, Json
CONSTANTS MaxN
VARIABLES mode, x, nz, n
vars == <<mode, x, nz, n>>
Vals == {<<0, 0>>, <<1, 0>>, <<0, 1>>, <<-1, 2>>}
Init == \/ /\ mode = "exact" /\ n \in {1, 2, 4} /\ x \in [1..n -> Vals] /\ nz \in {<<>>} \cup {[i \in 1..n |-> <<i % 2, 1 - (i % 3)>>]}
        \/ /\ mode = "perm" /\ n \in 1..MaxN /\ x = [i \in 1..n |-> <<i, 0>>] /\ nz = <<>>
Next == UNCHANGED vars
Spec == Init /\ [][Next]_vars
Scale(k, v) == [i \in 1..Len(v) |-> CScale(k, v[i])]
RoundTrip == mode = "exact" => /\ InvTimesN(Fwd(x)) = Scale(n, x)             \* x('w')('t') = x
                               /\ Fwd(InvTimesN(x)) = Scale(n, x)             \* x('t')('w') = x
Parseval == mode = "exact" => Energy(Fwd(x), 1) = n * Energy(x, 1)
ShiftOnlyReorders ==
  /\ IfftShift(FftShift(x)) = x /\ FftShift(IfftShift(x)) = x                 \* the opposite numpy shift undoes it
  /\ {FftShift(x)[i] : i \in 1..n} = {x[i] : i \in 1..n}
OddDiffers == (mode = "perm" /\ n % 2 = 1 /\ n > 1) => FftShift(x) # IfftShift(x)   \* a swapped shift is visible on odd lengths
EvenSame == (n % 2 = 0) => FftShift(x) = IfftShift(x)
AxisGrid == /\ Axis(n, FALSE)[1] = 0
            /\ \A b \in 1..n : Axis(n, FALSE)[b] \in (-(n \div 2))..((n - 1) \div 2)
            /\ \A i \in 1..(n - 1) : Axis(n, TRUE)[i + 1] = Axis(n, TRUE)[i] + 1     \* shifted axis is increasing
Emit == PrintT(<<"EV", ToJson([mode |-> mode, n |-> n, x |-> x, nz |-> nz,
          fwd |-> IF mode = "exact" THEN Fwd(x) ELSE <<>>, fwdnz |-> IF mode = "exact" /\ nz # <<>> THEN Fwd(nz) ELSE <<>>,
          invN |-> IF mode = "exact" THEN InvTimesN(x) ELSE <<>>,
          shiftsrc |-> [i \in 1..n |-> ShiftSrc(n, i)], ishiftsrc |-> [i \in 1..n |-> IShiftSrc(n, i)],
          axis |-> Axis(n, FALSE), axisshift |-> Axis(n, TRUE)])>>)
=============================================================================
