------------------------------ MODULE MC_Channel ------------------------------
EXTENDS Channel, Json
MsSet == {-3, -2, -1, 0, 1, 2, 5}
MsSmall == {-2, -1, 0, 1, 3}
Emit == Len(ops) > 0 => PrintT(<<"EV", ToJson([N |-> N, npol |-> npol, X0 |-> X0, X |-> X, loss |-> loss, ops |-> ops])>>)
=============================================================================
