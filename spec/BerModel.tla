-------------------------------- MODULE BerModel --------------------------------
(* C13 - the abstract error integral under the axioms of Q (decreasing, Q(x)+Q(-x)=1, values in [0,1]), on a
   finite ordered lattice: Q is any decreasing map from an integer grid -K..K into 0..S with Q(-x) = S - Q(x).
   TLC enumerates every such Q and checks that the two-level error 1/2 (Q(d1) + Q(d0)) is non-increasing in the level
   separation and bounded by 1/2, and that the bit-error factor M/(2(M-1)) bounds the symbol-to-bit conversion. *)
EXTENDS Integers, FiniteSets, TLC
CONSTANTS K, S
VARIABLE Qf
Grid == (-K)..K
Decreasing(q) == \A x1, x2 \in Grid : x1 < x2 => q[x1] >= q[x2]
Symmetric(q) == \A x1 \in Grid : q[x1] + q[-x1] = S
Init == Qf \in {q \in [Grid -> 0..S] : Decreasing(q) /\ Symmetric(q)}
Next == UNCHANGED Qf
Spec == Init /\ [][Next]_Qf
\* threshold r in 0..mu (units of the grid), equal sigmas: 2*Pe*S = Q(mu - r) + Q(r)
Err2(mu, r) == Qf[mu - r] + Qf[r]
MinErr2(mu) == CHOOSE v \in 0..(2 * S) : (\E r \in 0..mu : Err2(mu, r) = v) /\ (\A r \in 0..mu : Err2(mu, r) >= v)
NonIncreasingInMu == \A mu \in 0..(K - 1) : MinErr2(mu + 1) <= MinErr2(mu)
BoundedByHalf == \A mu \in 0..K : MinErr2(mu) <= S            \* 2*Pe*S <= S  <=>  Pe <= 1/2
\* bit-error factor: M/(2(M-1)) * SER <= M/(2(M-1)) for SER <= 1; and it is 1/2..1 * SER
FactorBounds == \A M \in {2, 4, 8, 16} : M <= 2 * (M - 1) * 1 /\ 2 * (M - 1) <= 2 * M
=============================================================================
