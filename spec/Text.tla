--------------------------------- MODULE Text ---------------------------------
(* C19 - the discrete utilities of opticomlib.utils: dec2bin, the SI formatter `si`, and the
   text <-> array pair (rendering of fixed-point numbers / str2array).
   Text is a sequence of one-character strings.  A decimal number is [neg, int, frac] with frac a
   sequence of digits (empty = written without a point); a complex number is [re, im, cplx]. *)
EXTENDS Integers, Sequences, FiniteSets, TLC
RECURSIVE Pow2(_)
Pow2(k) == IF k = 0 THEN 1 ELSE 2 * Pow2(k - 1)
RECURSIVE Pow10(_)
Pow10(k) == IF k = 0 THEN 1 ELSE 10 * Pow10(k - 1)

\* ---- dec2bin
Bin(v, d) == [i \in 1..d |-> (v \div Pow2(d - i)) % 2]
Dec2BinVerdict(v, d) == IF v > Pow2(d) - 1 THEN "ValueError" ELSE "ok"

\* ---- si: x = m * 10^e (m a positive integer), printed with k decimals as  pm * 10^-k  and prefix power P
Prefixes == <<"f", "p", "n", "u", "m", "", "k", "M", "G", "T">>          \* "u" stands for the micro sign
PrefixPow(p) == CASE p = "f" -> -15 [] p = "p" -> -12 [] p = "n" -> -9 [] p = "u" -> -6 [] p = "m" -> -3
                  [] p = "" -> 0 [] p = "k" -> 3 [] p = "M" -> 6 [] p = "G" -> 9 [] p = "T" -> 12
IsPrefix(p) == \E i \in 1..Len(Prefixes) : Prefixes[i] = p
\* compare  pm * 10^(P-k)  with  m * 10^e  exactly, after scaling to the smaller exponent
SiRoundTrips(m, e, k, pm, P) ==
  LET a == P - k  lo == IF a < e THEN a ELSE e
      X == m * Pow10(e - lo)  Y == pm * Pow10(a - lo)  half == Pow10(a - lo)
  IN  2 * (IF X > Y THEN X - Y ELSE Y - X) <= half                      \* to the printed precision
\* unrounded mantissa x / 10^P in [1, 1000)  (x >= 1e15 stays in T)
SiMantissaRange(m, e, P) ==
  LET lo == IF P < e THEN P ELSE e
      X == m * Pow10(e - lo)  U == Pow10(P - lo) IN
  X >= U /\ (P = 12 \/ X < 1000 * U)
SiOK(m, e, k, pm, prefix) == IsPrefix(prefix) /\ SiRoundTrips(m, e, k, pm, PrefixPow(prefix)) /\ SiMantissaRange(m, e, PrefixPow(prefix))

\* ---- rendering numbers
Digit(n) == CASE n = 0 -> "0" [] n = 1 -> "1" [] n = 2 -> "2" [] n = 3 -> "3" [] n = 4 -> "4"
              [] n = 5 -> "5" [] n = 6 -> "6" [] n = 7 -> "7" [] n = 8 -> "8" [] n = 9 -> "9"
RECURSIVE NatChars(_)
NatChars(n) == IF n < 10 THEN <<Digit(n)>> ELSE NatChars(n \div 10) \o <<Digit(n % 10)>>
DecChars(x) == (IF x.neg THEN <<"-">> ELSE <<>>) \o NatChars(x.int) \o
               (IF x.frac = <<>> THEN <<>> ELSE <<".">> \o [i \in 1..Len(x.frac) |-> Digit(x.frac[i])])
IsZeroDec(x) == x.int = 0 /\ \A i \in 1..Len(x.frac) : x.frac[i] = 0
\* a number is [re, im, cplx, unit]; complex ones are written  re(+|-)im<unit>  or  im<unit> when re = 0
NumChars(z) ==
  IF ~z.cplx THEN DecChars(z.re)
  ELSE (IF IsZeroDec(z.re) THEN <<>> ELSE DecChars(z.re) \o (IF z.im.neg THEN <<>> ELSE <<"+">>))
       \o DecChars(z.im) \o <<z.unit>>
RECURSIVE JoinFrom(_, _, _)
JoinFrom(parts, sep, i) == IF i > Len(parts) THEN <<>>
                           ELSE (IF i = 1 THEN <<>> ELSE sep) \o parts[i] \o JoinFrom(parts, sep, i + 1)
Join(parts, sep) == JoinFrom(parts, sep, 1)
Sep(style) == CASE style = "comma" -> <<",">> [] style = "space" -> <<" ">> [] style = "commaspace" -> <<",", " ">>
                [] style = "mixed" -> <<",", " ">>
RowSep(style) == IF style = "space" THEN <<";">> ELSE <<";", " ">>
RenderRow(row, style) == Join([i \in 1..Len(row) |-> NumChars(row[i])], Sep(style))
Render(arr, style) == Join([r \in 1..Len(arr) |-> RenderRow(arr[r], style)], RowSep(style))

\* ---- what str2array must return for Render(arr, style) with dtype (<<>> = not given)
AllBitChars(arr) == \A r \in 1..Len(arr) : \A i \in 1..Len(arr[r]) :
                       LET z == arr[r][i] IN ~z.cplx /\ ~z.re.neg /\ z.re.frac = <<>> /\
                       \A c \in 1..Len(NatChars(z.re.int)) : NatChars(z.re.int)[c] \in {"0", "1"}
Kind(arr) == IF \E r \in 1..Len(arr) : \E i \in 1..Len(arr[r]) : arr[r][i].cplx THEN "complex"
             ELSE IF \E r \in 1..Len(arr) : \E i \in 1..Len(arr[r]) : arr[r][i].re.frac # <<>> THEN "float"
             ELSE "int"
\* digits of a bit-pattern text, row by row
RECURSIVE FlatDigits(_, _)
FlatDigits(row, i) == IF i > Len(row) THEN <<>> ELSE NatChars(row[i].re.int) \o FlatDigits(row, i + 1)
BitRows(arr) == [r \in 1..Len(arr) |-> [c \in 1..Len(FlatDigits(arr[r], 1)) |-> IF FlatDigits(arr[r], 1)[c] = "1" THEN 1 ELSE 0]]
\* result descriptor: [mode, kind]: mode "bits" (digit by digit, BitRows), "numbers" (the array itself) or
\* "none": a 0/1-only text whose rows have different digit counts is not the text of any array
BitRowsRect(arr) == \A r \in 1..Len(arr) : Len(FlatDigits(arr[r], 1)) = Len(FlatDigits(arr[1], 1))
Expected(arr, dtype) ==
  IF AllBitChars(arr) /\ (dtype = <<>> \/ dtype = <<"bool">>) THEN
     (IF BitRowsRect(arr) THEN [mode |-> "bits", kind |-> "bool"] ELSE [mode |-> "none", kind |-> "bool"])
  ELSE [mode |-> "numbers", kind |-> IF dtype = <<>> THEN Kind(arr) ELSE dtype[1]]
=============================================================================
