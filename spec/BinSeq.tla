------------------------------- MODULE BinSeq -------------------------------
(* C15 - binary_sequence as a closed algebra over {0,1}.
   Abstract state: a heap of bit strings (every object ever created; operations never modify an
   existing one) and `last`, the record of the most recent public call with the observations the
   property names.  One action per public entry point. *)
EXTENDS PySlice, FiniteSets, TLC
CONSTANTS MaxHeap,       \* bound on the number of objects
          Tokens,        \* element tokens a caller may put in a literal, as codes: 0, 1, 2, 3 (= -1), 4 (= 0.5), 5 (= a letter)
          MaxLit,        \* longest literal
          Pool           \* initial objects (set of bit strings) for the law-oriented instances

VARIABLES heap, last
vars == <<heap, last>>

Forms == {"str", "strsep", "list", "tuple", "ndarray", "boollist"}
Lits(n) == UNION {[1..k -> Tokens] : k \in 1..n}
IsBit(t) == t = 0 \/ t = 1
\* does the constructor accept literal `lit` in container form `f` ?
\*  - "str" is the digits written without separator: any character other than 0/1 changes the type
\*    inference of str2array (a numeric or invalid string) and the 0/1 test then fails;
\*  - "boollist" renders 0/1 as False/True and cannot express other tokens.
Accepts(f, lit) == \A i \in 1..Len(lit) : IsBit(lit[i])
Expressible(f, lit) == f = "boollist" => \A i \in 1..Len(lit) : IsBit(lit[i])

Ones(b)  == Cardinality({i \in 1..Len(b) : b[i] = 1})
Zeros(b) == Len(b) - Ones(b)
Inv(b)   == [i \in 1..Len(b) |-> 1 - b[i]]
Obs(b)   == [len |-> Len(b), ones |-> Ones(b), zeros |-> Zeros(b)]
NoObs    == [len |-> -1, ones |-> -1, zeros |-> -1]

Ok(op, args, b)  == [op |-> op, args |-> args, raised |-> FALSE, obs |-> Obs(b)]
Err(op, args)    == [op |-> op, args |-> args, raised |-> TRUE, obs |-> NoObs]

Init == heap \in {<<b>> : b \in Pool} \cup {<<>>} /\ last = Ok("init", <<>>, <<>>)

Ctor(f, lit) ==
  /\ Expressible(f, lit)
  /\ IF Accepts(f, lit) THEN heap' = Append(heap, lit) /\ last' = Ok("ctor", <<f, lit>>, lit)
                        ELSE heap' = heap /\ last' = Err("ctor", <<f, lit>>)
\* 2-D data is always rejected
Ctor2D(lit) == heap' = heap /\ last' = Err("ctor2d", <<lit>>)
\* a + b with b another object
Concat(i, j) == LET r == heap[i] \o heap[j] IN heap' = Append(heap, r) /\ last' = Ok("concat", <<i, j>>, r)
\* a + literal  and  literal + a   (left literals: str, list, tuple only - see DESIGN.md)
ConcatLit(i, f, lit) ==
  /\ Expressible(f, lit)
  /\ IF Accepts(f, lit) THEN LET r == heap[i] \o lit IN heap' = Append(heap, r) /\ last' = Ok("concatlit", <<i, f, lit>>, r)
                        ELSE heap' = heap /\ last' = Err("concatlit", <<i, f, lit>>)
RConcatLit(f, lit, i) ==
  /\ Expressible(f, lit) /\ f \in {"str", "strsep", "list", "tuple", "boollist"}
  /\ IF Accepts(f, lit) THEN LET r == lit \o heap[i] IN heap' = Append(heap, r) /\ last' = Ok("rconcatlit", <<i, f, lit>>, r)
                        ELSE heap' = heap /\ last' = Err("rconcatlit", <<i, f, lit>>)
\* a 2-D (or 0-D array) operand is never a binary sequence, whatever its elements: a + [[..],[..]] and [[..],[..]] + a are rejected
Concat2D(i, lit, left) == heap' = heap /\ last' = Err(IF left THEN "rconcat2d" ELSE "concat2d", <<i, lit>>)
Invert(i) == LET r == Inv(heap[i]) IN heap' = Append(heap, r) /\ last' = Ok("invert", <<i>>, r)
Slice(i, a, b, s) == LET r == SliceSeq(heap[i], a, b, s) IN
                     heap' = Append(heap, r) /\ last' = Ok("slice", <<i, a, b, s>>, r)
Index(i, k) == /\ IndexOK(Len(heap[i]), k)
               /\ LET r == <<heap[i][IndexPos(Len(heap[i]), k)]>> IN
                  heap' = Append(heap, r) /\ last' = Ok("index", <<i, k>>, r)

OptInts == {<<>>} \cup {<<v>> : v \in {-2, -1, 0, 1, 2, 5}}
Steps   == {<<>>, <<1>>, <<2>>, <<-1>>, <<-2>>}
\* a rejected call leaves the heap as it was, so the state it leads to has the same future as the
\* state it came from; it is made terminal to keep the bounded instance small
Next ==
  /\ Len(heap) < MaxHeap /\ ~last.raised
  /\ \/ \E f \in Forms, lit \in Lits(MaxLit) : Ctor(f, lit)
     \/ \E lit \in Lits(2) : Ctor2D(lit)
     \/ \E i, j \in 1..Len(heap) : Concat(i, j)
     \/ \E i \in 1..Len(heap), f \in Forms, lit \in Lits(MaxLit) : ConcatLit(i, f, lit) \/ RConcatLit(f, lit, i)
     \/ \E i \in 1..Len(heap), lit \in Lits(2), left \in BOOLEAN : Concat2D(i, lit, left)
     \/ \E i \in 1..Len(heap) : Invert(i)
     \/ \E i \in 1..Len(heap), a \in OptInts, b \in OptInts, s \in Steps : Slice(i, a, b, s)
     \/ \E i \in 1..Len(heap), k \in -3..2 : Index(i, k)
Spec == Init /\ [][Next]_vars

\* ---------------------------------------------------------------- the property
Valid == \A i \in 1..Len(heap) : \A p \in 1..Len(heap[i]) : heap[i][p] \in {0, 1}
\* operands are never touched: existing objects keep their value for ever
AppendOnly == [][\A i \in 1..Len(heap) : heap'[i] = heap[i]]_vars
New == heap[Len(heap)]
Laws ==
  /\ (last.op = "concat" /\ ~last.raised) =>
        LET x == heap[last.args[1]]  y == heap[last.args[2]] IN
        /\ Len(New) = Len(x) + Len(y)
        /\ SubSeq(New, 1, Len(x)) = x                       \* (a+b)[:len(a)] == a
        /\ SubSeq(New, Len(x) + 1, Len(New)) = y
        /\ Ones(New) = Ones(x) + Ones(y)
  /\ (last.op = "invert") =>
        LET x == heap[last.args[1]] IN
        /\ Inv(New) = x                                     \* ~~a == a
        /\ Ones(New) = Zeros(x)                             \* ones(~a) == zeros(a)
        /\ Len(New) = Len(x)
  /\ ~last.raised => last.obs.ones + last.obs.zeros = last.obs.len
  /\ (last.op = "slice") => Len(New) <= Len(heap[last.args[1]])
  /\ (last.op = "index") => Len(New) = 1
RejectsNonBinary == (last.op \in {"ctor", "concatlit", "rconcatlit"} /\ ~last.raised) =>
                       \A p \in 1..Len(last.args[Len(last.args)]) : IsBit(last.args[Len(last.args)][p])
=============================================================================
