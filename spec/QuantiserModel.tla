--------------------------- MODULE QuantiserModel ---------------------------
(* Bounded model of C18: every sorted data set of <= MaxLen values from 0..MaxVal (ties included),
   every percentage in Ps, every resolution in Ns.  The quantiser picks ANY minimal interval and ANY
   code within half a step (ties at exact halves), and the invariants restate the property. *)
EXTENDS Quantiser
CONSTANTS MaxLen, MaxVal, Ps, Ns
VARIABLES s, p, n, pc, lo, hi, codes
vars == <<s, p, n, pc, lo, hi, codes>>
SortedSeqs == {q \in UNION {[1..k -> 0..MaxVal] : k \in 2..MaxLen} : \A i \in 1..(Len(q) - 1) : q[i] <= q[i + 1]}
Init == s \in SortedSeqs /\ p \in Ps /\ n \in Ns /\ Lag(Len(s), p, 1) >= 1 /\ pc = "interval" /\ lo = 0 /\ hi = 0 /\ codes = <<>>
PickInterval == /\ pc = "interval"
                /\ \E i \in MinStarts(s, Lag(Len(s), p, 1)) : lo' = s[i] /\ hi' = s[i + Lag(Len(s), p, 1)]
                /\ pc' = "quantise" /\ UNCHANGED <<s, p, n, codes>>
RECURSIVE CodeSeqs(_)
CodeSeqs(i) == IF i > Len(s) THEN {<<>>}
               ELSE {<<c>> \o rest : c \in {c0 \in 0..Top(n) : CodeOK(s[i], c0, lo, hi, n)}, rest \in CodeSeqs(i + 1)}
Quantise == /\ pc = "quantise" /\ hi > lo
            /\ codes' \in CodeSeqs(1)
            /\ pc' = "done" /\ UNCHANGED <<s, p, n, lo, hi>>
Next == PickInterval \/ Quantise
Spec == Init /\ [][Next]_vars
IntervalOK == pc # "interval" => /\ ShortestOK(s, Lag(Len(s), p, 1), lo, hi)
                                 /\ Covers(s, lo, hi) >= Lag(Len(s), p, 1) + 1
AtMost2nValues == pc = "done" => Cardinality({codes[i] : i \in 1..Len(codes)}) <= Pow2(n)
Saturates == pc = "done" => \A i \in 1..Len(s) : (s[i] < lo => codes[i] = 0) /\ (s[i] > hi => codes[i] = Top(n))
EndCodes == pc = "done" => \A i \in 1..Len(s) : (s[i] = lo => codes[i] = 0) /\ (s[i] = hi => codes[i] = Top(n))
=============================================================================
