------------------------------- MODULE EyeTrace -------------------------------
(* C17, binding T.  Events (ppm = parts per million of b - a unless stated):
     est   [finite, mu0e, mu1e, s0, s1, sigma, thr_in, tdist_ppm, topt_mid_ppm, i, i_int, i_off, sps, grid, populated]
             i_off = circular distance (1/1000 sample, modulo one slot) between the sampling index and the sample at t_opt
             mu0e = (mu0 - a), mu1e = (mu1 - b), s0/s1/sigma in ppm of (b-a); tdist_ppm = (t_right - t_left) in ppm of a slot;
             topt_mid_ppm = t_opt - (t_left + t_right)/2 in ppm of a slot
     equiv [finite, dmu0, dmu1, ds0, ds1, dthr, dtl, dtr, dto, same_i]
             differences between the estimate of alpha*y+beta mapped back (divide by alpha, subtract beta) and the estimate of y,
             in ppm of (b-a) (levels, spreads) or of a slot (times)                                                   *)
EXTENDS Integers, Sequences, TLC, Json, IOUtils
Trace == ndJsonDeserialize(IOEnv.IN_FILE)
Abs(v) == IF v < 0 THEN -v ELSE v
Clauses(e) ==
  CASE e.kind = "est" ->
        IF ~e.finite THEN {"finite-estimates"} ELSE
        (IF Abs(e.mu0e) > 80000 THEN {"mu0-within-8%"} ELSE {}) \cup (IF Abs(e.mu1e) > 80000 THEN {"mu1-within-8%"} ELSE {}) \cup
        (IF 2 * e.s0 < e.sigma \/ e.s0 > 2 * e.sigma + 30000 THEN {"s0-band"} ELSE {}) \cup
        (IF 2 * e.s1 < e.sigma \/ e.s1 > 2 * e.sigma + 30000 THEN {"s1-band"} ELSE {}) \cup
        (IF ~e.thr_in THEN {"mu0<threshold<mu1"} ELSE {}) \cup
        \* the crossing instants are cluster centres of the transitions: judged on data with both transitions well populated (`populated`;
        \* with 3 % marks - 32 transitions in 512 slots - the unchanged estimator was measured at 0.898 and 1.125 in 2 of 20 runs)
        (IF e.populated /\ Abs(e.tdist_ppm - 1000000) > 100000 THEN {"crossings-one-slot-apart"} ELSE {}) \cup
        \* all three instants lie on the eye's time grid (`grid` points per slot): midway up to one grid step (never less than 2 % of a slot)
        (IF e.populated /\ Abs(e.topt_mid_ppm) > (IF 1000000 \div e.grid > 20000 THEN 1000000 \div e.grid ELSE 20000) THEN {"t_opt-midway"} ELSE {}) \cup
        (IF ~e.i_int \/ e.i < 0 \/ e.i >= e.sps THEN {"sampling-index-in-[0,sps)"} ELSE {}) \cup
        \* ... and it is the index of the optimum instant (within the three samples by which rounding conventions differ: Eye.tla, IndexAtOptimum), on eyes of >= 8 samples per slot
        \* (plus two steps of the eye grid when that is coarser than the signal's)
        (IF e.sps >= 8 /\ Abs(e.i_off) > 3100 + (IF e.grid < e.sps THEN (2000 * e.sps) \div e.grid ELSE 0) THEN {"sampling-index-at-the-optimum-instant"} ELSE {})
    [] e.kind = "equiv" ->
        IF ~e.finite THEN {"finite-estimates"} ELSE
        (IF Abs(e.dmu0) > 1000 \/ Abs(e.dmu1) > 1000 \/ Abs(e.dthr) > 5000 THEN {"levels-equivariant"} ELSE {}) \cup
        (IF Abs(e.ds0) > 1000 \/ Abs(e.ds1) > 1000 THEN {"spreads-scale"} ELSE {}) \cup
        (IF Abs(e.dtl) > 1000 \/ Abs(e.dtr) > 1000 \/ Abs(e.dto) > 1000 \/ ~e.same_i THEN {"timing-unit-independent"} ELSE {})
Bad == UNION {{<<i, c>> : c \in Clauses(Trace[i])} : i \in 1..Len(Trace)}
ASSUME JsonSerialize(IOEnv.OUT_FILE, [n |-> Len(Trace), bad |-> Bad])
=============================================================================
