------------------------------ MODULE GF2Facts ------------------------------
(* Arithmetic facts used by the primitivity argument, evaluated by TLC itself:
   the prime factorisations of 2^n-1 for the supported orders. *)
EXTENDS Integers, Sequences, TLC, Json, IOUtils
IsPrime(n) == n >= 2 /\ \A d \in 2 .. 46340 : (d * d > n) \/ (n % d # 0)
RECURSIVE Pow2(_)
Pow2(k) == IF k = 0 THEN 1 ELSE 2 * Pow2(k - 1)
Mersenne(n) == (Pow2(n - 1) - 1) * 2 + 1          \* 2^n - 1 without overflowing 32 bits
\* order -> sequence of <<prime, multiplicity>>
Factors == [o \in {7, 9, 11, 15, 20, 23, 31} |->
   CASE o = 7  -> << <<127, 1>> >>
     [] o = 9  -> << <<7, 1>>, <<73, 1>> >>
     [] o = 11 -> << <<23, 1>>, <<89, 1>> >>
     [] o = 15 -> << <<7, 1>>, <<31, 1>>, <<151, 1>> >>
     [] o = 20 -> << <<3, 1>>, <<5, 2>>, <<11, 1>>, <<31, 1>>, <<41, 1>> >>
     [] o = 23 -> << <<47, 1>>, <<178481, 1>> >>
     [] o = 31 -> << <<2147483647, 1>> >>]
RECURSIVE IPow(_, _)
IPow(b, x) == IF x = 0 THEN 1 ELSE b * IPow(b, x - 1)
RECURSIVE Prod(_, _)
Prod(f, i) == IF i > Len(f) THEN 1 ELSE IPow(f[i][1], f[i][2]) * Prod(f, i + 1)
FactorisationOK(o) == /\ Prod(Factors[o], 1) = Mersenne(o)
                      /\ \A i \in 1..Len(Factors[o]) : IsPrime(Factors[o][i][1])
ASSUME \A o \in DOMAIN Factors : FactorisationOK(o)
ASSUME JsonSerialize(IOEnv.OUT_FILE,
         [o \in {"7", "9", "11", "15", "20", "23", "31"} |->
            LET n == CASE o = "7" -> 7 [] o = "9" -> 9 [] o = "11" -> 11 [] o = "15" -> 15
                       [] o = "20" -> 20 [] o = "23" -> 23 [] o = "31" -> 31
            IN [mersenne |-> Mersenne(n),
                cofactors |-> [i \in 1..Len(Factors[n]) |-> Mersenne(n) \div Factors[n][i][1]]]])
=============================================================================
