------------------------------- MODULE DacModel -------------------------------
(* Bounded model of C05: every bit string up to MaxBits, sps in SpsVals, NRZ and RZ, integer
   amplitudes of both signs; then every sampling instant. *)
EXTENDS DacSampler
CONSTANTS MaxBits, SpsVals, Vouts, Biases
VoutSet == {-3, 0, 1, 2}
BiasSet == {-1, 0, 2}
VARIABLES bits, sps, shape, vout, bias, wave, k, rx
vars == <<bits, sps, shape, vout, bias, wave, k, rx>>
Init == /\ bits \in UNION {[1..n -> {0, 1}] : n \in 1..MaxBits} /\ sps \in SpsVals /\ shape \in {"nrz", "rz"}
        /\ vout \in Vouts /\ bias \in Biases /\ wave = <<>> /\ k = -1 /\ rx = <<>>
Generate == wave = <<>> /\ wave' = Dac(bits, sps, shape, vout, bias) /\ UNCHANGED <<bits, sps, shape, vout, bias, k, rx>>
Sample == /\ wave # <<>> /\ k = -1
          /\ \E kk \in 0..(sps - 1) : k' = kk /\ rx' = Decide(Sampler(wave, sps, kk), vout, bias)
          /\ UNCHANGED <<bits, sps, shape, vout, bias, wave>>
Next == Generate \/ Sample
Spec == Init /\ [][Next]_vars
LenExact == wave # <<>> => Len(wave) = Len(bits) * sps
SlotExact == wave # <<>> => \A s \in 1..Len(bits) : \A j \in 1..sps :
   wave[(s - 1) * sps + j] = (IF shape = "nrz" \/ j <= sps \div 2 THEN bias + vout * bits[s] ELSE bias)
SamplerInverts == (k # -1 /\ vout # 0 /\ InsidePulse(shape, sps, k)) => rx = bits
SamplerLength == k # -1 => Len(rx) = Len(bits)
=============================================================================
