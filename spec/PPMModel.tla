------------------------------ MODULE PPMModel ------------------------------
(* C12 as a bounded state machine: a word is encoded, (optionally corrupted,) hard-decided and
   decoded.  TLC enumerates every bit string up to MaxBits, every corruption pattern of the encoded
   slots whose length is at most MaxSlots, and every allowed outcome of the random repair. *)
EXTENDS PPM
CONSTANTS Ms, MaxBits, MaxSlots
VARIABLES pc, M, bits, slots, rx, hd, dec
vars == <<pc, M, bits, slots, rx, hd, dec>>
None == <<2>>                                     \* "not yet computed" (not a bit string)
BitStrings(n) == UNION {[1..k -> {0, 1}] : k \in 0..n}

Init == /\ M \in Ms /\ bits \in BitStrings(MaxBits) /\ pc = "encode"
        /\ slots = None /\ rx = None /\ hd = None /\ dec = None
\* second initial condition: start from an arbitrary received slot pattern (HDD alone)
HddInit == /\ M \in Ms /\ bits = <<>> /\ pc = "hdd" /\ slots = None /\ hd = None /\ dec = None
           /\ rx \in UNION {[1..(n * M) -> {0, 1}] : n \in 1..(MaxSlots \div M)}
DoEncode  == pc = "encode" /\ slots' = Encode(bits, M) /\ pc' = "channel" /\ UNCHANGED <<M, bits, rx, hd, dec>>
\* the channel either delivers the codeword or (when short enough) any slot pattern of that length
DoChannel == /\ pc = "channel" /\ pc' = "hdd" /\ UNCHANGED <<M, bits, slots, hd, dec>>
             /\ \/ rx' = slots
                \/ /\ Len(slots) > 0 /\ Len(slots) <= MaxSlots
                   /\ rx' \in [1..Len(slots) -> {0, 1}]
DoHdd     == /\ pc = "hdd" /\ pc' = "decode" /\ UNCHANGED <<M, bits, slots, rx, dec>>
             /\ hd' \in HddSuccessors(rx, M)
DoDecode  == pc = "decode" /\ dec' = Decode(hd, M) /\ pc' = "done" /\ UNCHANGED <<M, bits, slots, rx, hd>>
Next == DoEncode \/ DoChannel \/ DoHdd \/ DoDecode
Spec == Init /\ [][Next]_vars

k == Log2(M)
OneHot == slots # None => IsCodeword(slots, M) /\ Len(slots) = NSym(bits, M) * M
PositionIsValue == slots # None =>
   \A j \in 1..NSym(bits, M) : slots[(j - 1) * M + Val(Word(bits, M, j)) + 1] = 1
HddValid == hd # None => HddAllowed(rx, hd, M)
HddIdentityOnCodewords == (hd # None /\ IsCodeword(rx, M)) => hd = rx
RoundTrip == (pc = "done" /\ rx = slots) => dec = Truncate(bits, M)
DecodeLength == pc = "done" => Len(dec) = (Len(hd) \div M) * k
\* soft decision on the noiseless integer waveform (each slot repeated twice, levels -1 / 2): the
\* transmitted codeword is allowed and is the only allowed outcome (strict maxima)
SddIdentity == (slots # None /\ Len(slots) > 0) =>
   LET x == [i \in 1..(Len(slots) * 2) |-> 3 * slots[((i - 1) \div 2) + 1] - 1]
   IN  SddAllowed(x, 2, slots, M) /\ SddStrict(x, 2, slots, M)
=============================================================================
