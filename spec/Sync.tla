-------------------------------- MODULE Sync --------------------------------
(* C20 - SYNC: locate a transmitted slot pattern in a received waveform by cross-correlation.
   Exact integer model: tx waveform = each slot repeated sps times; the received record is the tx
   waveform repeated and delayed by d samples; corr[k] = sum_n rx[k+n] * tx[n] over one pattern
   length, lags k = 0..l-1; the result is the first maximal lag. *)
EXTENDS Integers, Sequences, FiniteSets, TLC
CONSTANTS MaxSlots, Sps
VARIABLES pat, d, idx
vars == <<pat, d, idx>>
Wave(p) == [i \in 1..(Len(p) * Sps) |-> p[((i - 1) \div Sps) + 1]]
Rx(p, dd, n) == LET w == Wave(p)  l == Len(w) IN [i \in 1..n |-> w[((i - 1 - dd) % l) + 1]]     \* delayed, periodic
RECURSIVE Dot(_, _, _, _)
Dot(rx, w, k, n) == IF n > Len(w) THEN 0 ELSE rx[k + n] * w[n] + Dot(rx, w, k, n + 1)
Corr(rx, w) == [k \in 0..(Len(w) - 1) |-> Dot(rx, w, k, 1)]
ArgMaxFirst(c) == CHOOSE k \in DOMAIN c : (\A j \in DOMAIN c : c[j] <= c[k]) /\ (\A j \in DOMAIN c : j < k => c[j] < c[k])
Locate(rx, p) == ArgMaxFirst(Corr(rx, Wave(p)))
\* patterns whose periodic autocorrelation has a single maximum (true of PRBS words)
UniquePeak(p) == LET w == Wave(p)  c == Corr(Rx(p, 0, 2 * Len(w)), w) IN \A k \in 1..(Len(w) - 1) : c[k] < c[0]
Patterns == UNION {[1..n -> {0, 1}] : n \in 2..MaxSlots}
Init == pat \in {p \in Patterns : UniquePeak(p)} /\ d \in 0..(MaxSlots * Sps - 1) /\ d < Len(pat) * Sps /\ idx = -1
Next == idx = -1 /\ idx' = Locate(Rx(pat, d, 2 * Len(pat) * Sps), pat) /\ UNCHANGED <<pat, d>>
Spec == Init /\ [][Next]_vars
SyncFindsDelay == idx # -1 => idx = d
\* verdict on the record length
TooShort(nrx, nslots) == nrx < nslots * Sps
=============================================================================
