--------------------------- MODULE GlobalGridInd ---------------------------
(* C14, unbounded: GridConsistent as an INDUCTIVE invariant of the gv state machine over ALL positive integer
   rates, slot counts and sample counts (no finite value domain), discharged by Apalache:
     apalache-mc check --init=IndInit --inv=IndInv --length=1 GlobalGridInd.tla     (IndInv /\ Next => IndInv')
     apalache-mc check --init=Init    --inv=IndInv --length=0 GlobalGridInd.tla     (Init => IndInv)
   The action is the one of GlobalGrid.tla with optional arguments encoded as (given, value) pairs and without the
   bookkeeping variable `last`; npts = 0 encodes "no grid" (N = None). *)
EXTENDS Integers
VARIABLES
  \* @type: Int;
  sps,
  \* @type: Int;
  R,
  \* @type: Int;
  fs,
  \* @type: Bool;
  hasN,
  \* @type: Int;
  N,
  \* @type: Int;
  gpts,
  \* @type: Int;
  gfs

Init == sps = 16 /\ R = 1000 /\ fs = 16000 /\ hasN = FALSE /\ N = 0 /\ gpts = 0 /\ gfs = 0

\* @type: (Bool, Int, Bool, Int, Bool, Int, Bool, Int, Int) => Bool;
Call(g_sps, a_sps, g_R, a_R, g_fs, a_fs, g_N, a_N, q) ==
  LET \* commensurate rates: whenever a rate is derived by division, q is the exact quotient
      guard == /\ a_sps > 0 /\ a_R > 0 /\ a_fs > 0 /\ a_N > 0 /\ q > 0
               /\ (g_sps /\ ~g_R /\ g_fs => q * a_sps = a_fs)
               /\ (~g_sps /\ g_R /\ g_fs => q * a_R = a_fs)
               /\ (~g_sps /\ ~g_R /\ g_fs => q * R = a_fs)
      nsps == IF g_sps THEN a_sps ELSE IF g_R THEN (IF g_fs THEN q ELSE sps) ELSE IF g_fs THEN q ELSE sps
      nR   == IF g_sps THEN (IF g_R THEN a_R ELSE IF g_fs THEN q ELSE R) ELSE IF g_R THEN a_R ELSE R
      nfs  == IF g_sps THEN (IF g_R THEN a_R * a_sps ELSE IF g_fs THEN a_fs ELSE R * a_sps)
              ELSE IF g_R THEN (IF g_fs THEN a_fs ELSE a_R * sps) ELSE IF g_fs THEN a_fs ELSE fs
      nhas == (hasN \/ g_N)
      nN   == IF g_N THEN a_N ELSE N
  IN /\ guard
     /\ sps' = nsps /\ R' = nR /\ fs' = nfs /\ hasN' = nhas /\ N' = nN
     /\ gpts' = (IF nhas THEN nN * nsps ELSE gpts)
     /\ gfs' = (IF nhas THEN nfs ELSE gfs)

Clean == sps' = 16 /\ R' = 1000 /\ fs' = 16000 /\ hasN' = FALSE /\ N' = 0 /\ gpts' = 0 /\ gfs' = 0

Next == \/ \E g1 \in BOOLEAN, g2 \in BOOLEAN, g3 \in BOOLEAN, g4 \in BOOLEAN :
            \E v1 \in Int, v2 \in Int, v3 \in Int, v4 \in Int, q \in Int : Call(g1, v1, g2, v2, g3, v3, g4, v4, q)
        \/ Clean

\* negative control: the behaviour before fix c9ab050 - the grid is rebuilt only when N is passed
\* @type: (Bool, Int, Bool, Int, Bool, Int, Bool, Int, Int) => Bool;
CallStale(g_sps, a_sps, g_R, a_R, g_fs, a_fs, g_N, a_N, q) ==
  LET guard == /\ a_sps > 0 /\ a_R > 0 /\ a_fs > 0 /\ a_N > 0 /\ q > 0
               /\ (g_sps /\ ~g_R /\ g_fs => q * a_sps = a_fs)
               /\ (~g_sps /\ g_R /\ g_fs => q * a_R = a_fs)
               /\ (~g_sps /\ ~g_R /\ g_fs => q * R = a_fs)
      nsps == IF g_sps THEN a_sps ELSE IF g_R THEN (IF g_fs THEN q ELSE sps) ELSE IF g_fs THEN q ELSE sps
      nR   == IF g_sps THEN (IF g_R THEN a_R ELSE IF g_fs THEN q ELSE R) ELSE IF g_R THEN a_R ELSE R
      nfs  == IF g_sps THEN (IF g_R THEN a_R * a_sps ELSE IF g_fs THEN a_fs ELSE R * a_sps)
              ELSE IF g_R THEN (IF g_fs THEN a_fs ELSE a_R * sps) ELSE IF g_fs THEN a_fs ELSE fs
  IN /\ guard
     /\ sps' = nsps /\ R' = nR /\ fs' = nfs /\ hasN' = (hasN \/ g_N) /\ N' = (IF g_N THEN a_N ELSE N)
     /\ gpts' = (IF g_N THEN a_N * nsps ELSE gpts)
     /\ gfs' = (IF g_N THEN nfs ELSE gfs)
NextStale == \E g1 \in BOOLEAN, g2 \in BOOLEAN, g3 \in BOOLEAN, g4 \in BOOLEAN :
               \E v1 \in Int, v2 \in Int, v3 \in Int, v4 \in Int, q \in Int : CallStale(g1, v1, g2, v2, g3, v3, g4, v4, q)

IndInv == /\ sps > 0 /\ R > 0 /\ fs = R * sps
          /\ (hasN => N > 0 /\ gpts = N * sps /\ gfs = fs)
          /\ (~hasN => gpts = 0 /\ gfs = 0)
TypeOK == sps \in Int /\ R \in Int /\ fs \in Int /\ hasN \in BOOLEAN /\ N \in Int /\ gpts \in Int /\ gfs \in Int
IndInit == TypeOK /\ IndInv
=============================================================================
