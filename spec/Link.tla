--------------------------------- MODULE Link ---------------------------------
(* C03 - a noise-free link as a chain of blocks over a signal DESCRIPTOR:
     [cls, npol, len, nslots, sps, inv, sent]     cls "B" bits | "E" electrical | "O" optical
   inv = the ON optical level carries bit 0 (the modulator is biased on its inverting slope).
   Every block has a precondition on the incoming descriptor - the inter-block interface - and the chain
   must run to completion (no step disabled) and return the transmitted bits. *)
EXTENDS Integers, Sequences, FiniteSets, TLC
CONSTANTS MaxBits, SpsVals
VARIABLES d, stage, rx, plan
vars == <<d, stage, rx, plan>>
Bits == UNION {[1..n -> {0, 1}] : n \in 2..MaxBits}
BothSymbols(b) == (\E i \in 1..Len(b) : b[i] = 0) /\ (\E i \in 1..Len(b) : b[i] = 1)
Plans == [shape : {"nrz", "gaussian"}, npol : {1, 2}, bias : {"on", "off"}, linear : {"none", "DM", "FIBER"}, sps : SpsVals]
Init == /\ plan \in Plans
        \* the statement's domain: both symbols present and a waveform longer than the 16-sample filter padding
        /\ \E b \in {x \in Bits : BothSymbols(x) /\ Len(x) * plan.sps > 16} :
             d = [cls |-> "B", npol |-> 0, len |-> Len(b), nslots |-> Len(b), sps |-> plan.sps, inv |-> FALSE, sent |-> b]
        /\ stage = "bits" /\ rx = <<>>
\* DAC: bits -> electrical waveform of nslots*sps samples (slot k occupies samples (k-1)*sps+1 .. k*sps)
DAC == /\ stage = "bits" /\ d.cls = "B"
       /\ d' = [d EXCEPT !.cls = "E", !.npol = 1, !.len = d.nslots * d.sps]
       /\ stage' = "dac" /\ UNCHANGED <<rx, plan>>
\* MZM on a CW carrier of the planned layout: the drive must have the carrier's length (or be scalar)
MZM == /\ stage = "dac" /\ d.cls = "E" /\ d.len = d.nslots * d.sps
       /\ d' = [d EXCEPT !.cls = "O", !.npol = plan.npol, !.inv = (plan.bias = "on")]
       /\ stage' = "mzm" /\ UNCHANGED <<rx, plan>>
\* linear element with |beta2 L| below 1 % of the squared slot period: descriptor unchanged
Linear == /\ stage = "mzm" /\ d.cls = "O"
          /\ d' = d /\ stage' = "chan" /\ UNCHANGED <<rx, plan>>
PD == /\ stage = "chan" /\ d.cls = "O" /\ d.len > 16        \* longer than the filter padding
      /\ d' = [d EXCEPT !.cls = "E", !.npol = 1]
      /\ stage' = "pd" /\ UNCHANGED <<rx, plan>>
Sample == /\ stage = "pd" /\ d.cls = "E" /\ d.len = d.nslots * d.sps
          /\ d' = [d EXCEPT !.len = d.nslots]                \* one sample per slot, taken at sps div 2
          /\ stage' = "sampled" /\ UNCHANGED <<rx, plan>>
\* threshold midway between the received levels; the comparison yields 1 for the HIGH level
Decide == /\ stage = "sampled" /\ d.len = d.nslots
          /\ rx' = [i \in 1..d.nslots |-> IF d.inv THEN 1 - (1 - d.sent[i]) ELSE d.sent[i]]
          /\ stage' = "done" /\ UNCHANGED <<d, plan>>
Next == DAC \/ MZM \/ Linear \/ PD \/ Sample \/ Decide
Spec == Init /\ [][Next]_vars /\ WF_vars(Next)
\* high level <-> sent bit, given the inversion: comparison result c[i] = (level high) = sent XOR inv; decoded = c XOR inv
HighLevel(b, inv) == [i \in 1..Len(b) |-> IF inv THEN 1 - b[i] ELSE b[i]]
Decoded(c, inv) == [i \in 1..Len(c) |-> IF inv THEN 1 - c[i] ELSE c[i]]
DecodedIsSent == stage = "done" => rx = d.sent /\ Decoded(HighLevel(d.sent, d.inv), d.inv) = d.sent
InterfaceOK == /\ (stage \in {"dac", "pd"} => d.len = d.nslots * d.sps)
               /\ (stage \in {"mzm", "chan"} => d.cls = "O" /\ d.npol = plan.npol /\ d.len = d.nslots * d.sps)
Completes == <>(stage = "done")
\* bit-error counting: k flips in n bits -> k/n
RECURSIVE Flips(_, _, _)
Flips(a, b, i) == IF i > Len(a) THEN 0 ELSE (IF a[i] # b[i] THEN 1 ELSE 0) + Flips(a, b, i + 1)
=============================================================================
