------------------------------- MODULE FiberTrace -------------------------------
(* C08, binding T.  Recorded FIBER calls (tracer hook) and measurements, judged here.
     ctrl   [phi_ppb, L_ppb, nsteps, bound, steps: sequence of [kind, hk_ppb, forward, inside]]     controller trace of one call:
              hk_ppb  = |h / min(phi_max / (gamma * peak_before), L) - 1| in ppb for every adaptive step (forward: h > 0; inside: the
                        position reached does not exceed L), peak_before being the maximum over
                        samples of the TOTAL power of both polarisations of the field the step was computed from (measured by the harness)
              L_ppb   = |sum of all steps / L - 1| in ppb;  nsteps <= bound = ceil(gamma * Pmax * L / phi_max) + 2
     energy [ppb, dB]            |E_out / (E_in 10^(-alpha L/10)) - 1| per polarisation
     finite [ok, shape_ok]
     law    [name, ppt]          equalities (SPM closed form, 1-pol = x-row of 2-pol, ...)
     conv   [name, err_ppm, phi_ppm]   relative error against an exact solution (or the finest run) for a given phi_max:
                                 must be <= C * phi_max; C = 0.1 against the fundamental soliton (measured 0.015), C = 2 for
                                 the distance to the finest run of a general input with total nonlinear phase <= 10 rad (measured 0.65)
     order  [name, coarse_ppm, fine_ppm, factor]   phi_max divided by `factor`: the error must fall at least to 2/factor
                                 of its value (half of the ideal first-order improvement)                                  *)
EXTENDS Integers, Sequences, TLC, Json, IOUtils
Trace == ndJsonDeserialize(IOEnv.IN_FILE)
Laws == {"SPM-closed-form", "SPM-closed-form-with-loss", "1pol=x-row-of-2pol-with-empty-y", "SPM-lattice-j^m", "linear-limit=DM",
         "result-independent-of-call-history", "real-dtype-field=complex-dtype-field"}
Cx10(name) == IF name = "fundamental-soliton-error<=C*phi_max" THEN 1 ELSE 20
\* (conformance to the design's exact step, hk_ppb, and the step count are recorded in the events but are not part of the statement:
\*  a controller that takes shorter steps still satisfies it; termination is enforced by the harness deadline)
Clauses(e) ==
  CASE e.kind = "ctrl" ->
        \* phi_max is documented as the upper bound of the nonlinear phase rotation per step: a step may be shorter than the design's, never longer
        (IF \E i \in 1..Len(e.steps) : e.steps[i].kind # "last" /\ e.steps[i].over_ppb > 1000 THEN {"nonlinear-phase-per-step-exceeds-phi_max"} ELSE {}) \cup
        (IF \E i \in 1..Len(e.steps) : ~e.steps[i].forward THEN {"step-backwards"} ELSE {}) \cup
        (IF \E i \in 1..Len(e.steps) : ~e.steps[i].inside THEN {"step-beyond-the-fibre-end"} ELSE {}) \cup
        (IF e.L_ppb > 1000 THEN {"steps-sum-to-length"} ELSE {})
    [] e.kind = "energy" -> IF e.ppb > 1000 + e.dB * 20000 THEN {"energy-conserved-up-to-loss"} ELSE {}
    [] e.kind = "finite" -> (IF ~e.ok THEN {"finite-output"} ELSE {}) \cup (IF ~e.shape_ok THEN {"shape-preserved"} ELSE {})
    [] e.kind = "law" -> IF e.name \notin Laws THEN {"unknown-law"} ELSE IF e.ppt > 1000000 THEN {e.name} ELSE {}
    [] e.kind = "conv" -> IF 10 * e.err_ppm > Cx10(e.name) * e.phi_ppm THEN {e.name} ELSE {}
    [] e.kind = "order" -> IF e.fine_ppm * e.factor > 2 * e.coarse_ppm /\ e.fine_ppm > 10 THEN {e.name} ELSE {}
Bad == UNION {{<<i, c>> : c \in Clauses(Trace[i])} : i \in 1..Len(Trace)}
ASSUME JsonSerialize(IOEnv.OUT_FILE, [n |-> Len(Trace), bad |-> Bad])
=============================================================================
