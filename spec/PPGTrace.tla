------------------------------- MODULE PPGTrace -------------------------------
(* C20, binding T (stateful monitor): a recorded history of PPG3204 driver calls against the fake
   VISA session.  The monitor keeps the instrument memory of PPG.tla and collects, per event, the
   clauses of the property it breaks.  Event kinds:
     set       [q, req, scalar, sel, cmds, warned, raised]       cmds = sequence of [verb, ch, val, exact]
     set_data  [bits, addr, sel, cmds, warned, raised]            cmds = sequence of data blocks
     get_data  [size, addr, sel, data, raised]
     sync      [d, idx, samestart, raised, short]                 SYNC observations              *)
EXTENDS PPG, Json, IOUtils
Trace == ndJsonDeserialize(IOEnv.IN_FILE)
VARIABLES l, mem, bad, cfg
tvars == <<l, mem, bad, cfg>>
Init == l = 1 /\ mem = <<>> /\ bad = {} /\ cfg = <<>>
Strip(c) == [verb |-> c.verb, ch |-> c.ch, val |-> c.val]
SetClauses(e) ==
  (IF e.raised THEN {"raised-instead-of-clamping"} ELSE
   (IF \E i \in 1..Len(e.cmds) : ~e.cmds[i].exact \/ ~CmdOK(Strip(e.cmds[i])) THEN {"command-out-of-range"} ELSE {}) \cup
   (IF [i \in 1..Len(e.cmds) |-> Strip(e.cmds[i])] # SetCmds(e.q, e.req, e.scalar, e.sel) THEN {"commands-differ"} ELSE {}) \cup
   (IF ~WarnOK(e.q, e.req, e.scalar, e.sel, e.warned) THEN {"warning"} ELSE {}))
DataClauses(e) ==
  (IF e.raised THEN {"raised"} ELSE
   (IF \E i \in 1..Len(e.cmds) : ~BlockOK(e.cmds[i]) THEN {"block-header-or-size"} ELSE {}) \cup
   (IF e.cmds # DataCmds(e.bits, e.addr, e.sel) THEN {"blocks-differ"} ELSE {}))
GetClauses(e) ==
  (IF e.raised THEN {"raised"} ELSE
   LET chs == Channels(e.sel) IN
   IF Len(e.data) # Len(chs) THEN {"channel-count"}
   ELSE IF \E i \in 1..Len(chs) : e.data[i] # Read(mem, chs[i], e.addr, e.size) THEN {"readback"} ELSE {})
SyncClauses(e) ==
  IF e.short THEN (IF e.raised # "BufferError" THEN {"short-record-not-rejected"} ELSE {})
  ELSE (IF e.raised # "none" THEN {"sync-raised"} ELSE
        (IF e.idx # e.d THEN {"sync-index"} ELSE {}) \cup (IF ~e.samestart THEN {"sync-signal-start"} ELSE {}))
StripAny(c) == IF c.verb = "PATT:DATA" THEN c ELSE Strip(c)
FlagClauses(e) ==
  (IF e.raised THEN {"raised"} ELSE
   (IF [i \in 1..Len(e.cmds) |-> Strip(e.cmds[i])] # FlagCmds(e.verb, e.val, e.sel) THEN {"commands-differ"} ELSE {}) \cup
   (IF \E i \in 1..Len(e.cmds) : ~CmdOK(Strip(e.cmds[i])) THEN {"command-out-of-range"} ELSE {}) \cup
   (IF e.warned # ChWarn(e.sel) THEN {"warning"} ELSE {}))
ConfigClauses(e) ==
  (IF e.raised THEN {"raised-instead-of-clamping"} ELSE
   LET want == ConfigSetCmds(e.c, e.sel) \o (IF ConfigSendsData(e.c) THEN DataCmds(e.bits, 1, e.sel) ELSE <<>>) IN
   (IF [i \in 1..Len(e.cmds) |-> StripAny(e.cmds[i])] # want THEN {"composite-differs-from-individual-calls"} ELSE {}) \cup
   (IF \E i \in 1..Len(e.cmds) : (e.cmds[i].verb = "PATT:DATA" /\ ~BlockOK(e.cmds[i])) \/ (e.cmds[i].verb # "PATT:DATA" /\ (~e.cmds[i].exact \/ ~CmdOK(Strip(e.cmds[i]))))
      THEN {"command-out-of-range"} ELSE {}) \cup
   (IF ConfigMustWarn(e.c, e.sel) /\ ~e.warned THEN {"warning"} ELSE {}))
GetSetClauses(e) ==
  (IF e.raised THEN {"raised"} ELSE
   (IF [i \in 1..Len(e.cmds) |-> [verb |-> e.cmds[i].verb, ch |-> e.cmds[i].ch, val |-> 0]] # GetQueries(e.q, e.sel) THEN {"queries-differ"} ELSE {}) \cup
   (IF e.vals # GetVals(cfg, e.q, e.sel) THEN {"read-back-differs-from-instrument-state"} ELSE {}))
Clauses(e) == CASE e.kind = "set" -> SetClauses(e) [] e.kind = "get" -> GetSetClauses(e) [] e.kind = "flag" -> FlagClauses(e) [] e.kind = "config" -> ConfigClauses(e) [] e.kind = "set_data" -> DataClauses(e)
                [] e.kind = "get_data" -> GetClauses(e) [] e.kind = "sync" -> SyncClauses(e)
                [] e.kind = "wipe" -> {}                 \* a fresh simulated instrument is attached
Step == /\ l <= Len(Trace)
        /\ LET e == Trace[l] IN
           /\ bad' = bad \cup {<<l, c>> : c \in Clauses(e)}
           \* the memory follows what the driver actually sent (the fake instrument stores it)
           /\ mem' = IF e.kind = "set_data" /\ ~e.raised THEN Store(mem, e.cmds)
                      ELSE IF e.kind = "config" /\ ~e.raised THEN Store(mem, SelectSeq(e.cmds, LAMBDA c : c.verb = "PATT:DATA"))
                      ELSE IF e.kind = "wipe" THEN <<>> ELSE mem
           \* the instrument settings follow the commands actually received
           /\ cfg' = IF e.kind \in {"set", "flag", "config"} /\ ~e.raised
                      THEN ApplySettings(cfg, [i \in 1..Len(e.cmds) |-> IF e.cmds[i].verb = "PATT:DATA" THEN [verb |-> "PATT:DATA", ch |-> 0, val |-> 0] ELSE Strip(e.cmds[i])])
                      ELSE IF e.kind = "wipe" THEN <<>> ELSE cfg
        /\ l' = l + 1
Spec == Init /\ [][Step]_tvars
Done == (l = Len(Trace) + 1) => JsonSerialize(IOEnv.OUT_FILE, [n |-> Len(Trace), bad |-> bad])
=============================================================================
