--------------------------- MODULE GlobalGridRefine ---------------------------
(* Links the two formulations of the gv machine: every step of GlobalGrid.tla (the specification that is replayed on and
   trace-validated against the real singleton, model-checked by TLC) is a step of GlobalGridInd.tla (whose invariant
   Apalache proves inductive over unbounded integers), under the variable mapping below.  Checked by TLC as an action
   property on the complete reachable state space of the bounded instance. *)
EXTENDS GlobalGrid
Ind == INSTANCE GlobalGridInd WITH sps <- sps, R <- R, fs <- fs, hasN <- (N # <<>>), N <- (IF N = <<>> THEN 0 ELSE N[1]),
                                   gpts <- (IF grid = <<>> THEN 0 ELSE grid[1][1]), gfs <- (IF grid = <<>> THEN 0 ELSE grid[1][2])
V(x) == IF x = <<>> THEN 1 ELSE x[1]
StepRefines ==
  [][ /\ (last'.op = "call" => \E q \in {sps', R'} :
            Ind!Call(last'.sps # <<>>, V(last'.sps), last'.R # <<>>, V(last'.R), last'.fs # <<>>, V(last'.fs), last'.N # <<>>, V(last'.N), q))
      /\ (last'.op = "clean" => Ind!Clean) ]_vars
InvMapped == Ind!IndInv
=============================================================================
