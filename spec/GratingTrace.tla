------------------------------ MODULE GratingTrace ------------------------------
(* C16, bindings R/E/T: recorded FBG calls judged here.
     verdict [complete, incomplete, spec, raised]   one presence pattern of the design arguments
     passive [max_ppm]            (max |H|^2 - 1) in ppm (<= 5000: RK45 default tolerance)
     filt    [ppt]                residual of out = ifft(fft(in) * ifftshift(H)) per polarisation
     energy  [excess_ppm]         (E_out / E_in - 1) in ppm, must be <= 5000
     spectrum [dev_ppm]           uniform profile: deviation of |H|^2 from the closed form over the whole frequency grid
     bragg   [num, den, got_ppm]  |H(f_Bragg)|^2 in ppm against the lattice value num/den (5e-3: accuracy of RK45 at its default tolerances,
                                  the same allowance as for passivity; a first version allowed 2e-3 and raised a false alarm on the
                                  non-smooth profile 1-|z| at 2048 samples)
     route   [ppt]                two specification routes of the same grating: relative difference of H; also: the same call after
                                  another sampling configuration vs a freshly imported library instance (history independence)
     shape   [same]                                                                                  *)
EXTENDS Integers, Sequences, TLC, Json, IOUtils
Trace == ndJsonDeserialize(IOEnv.IN_FILE)
Abs(v) == IF v < 0 THEN -v ELSE v
Clauses(e) ==
  CASE e.kind = "verdict" -> (IF e.complete /\ e.raised # "ok" THEN {"complete-specification-rejected"} ELSE {}) \cup
                             (IF e.incomplete /\ e.raised # "ValueError" THEN {"incomplete-specification-accepted"} ELSE {}) \cup
                             (IF e.raised # e.spec THEN {"resolution-tree"} ELSE {})
    [] e.kind = "passive" -> IF e.max_ppm > 5000 THEN {"reflectivity-above-one"} ELSE {}
    [] e.kind = "filt" -> IF e.ppt > 1000 THEN {"output-is-input-filtered-by-H"} ELSE {}
    [] e.kind = "energy" -> IF e.excess_ppm > 5000 THEN {"energy-increased"} ELSE {}
    [] e.kind = "bragg" -> IF Abs(e.got_ppm * e.den - 1000000 * e.num) > 5000 * e.den THEN {"bragg-reflectivity-tanh2"} ELSE {}
    \* uniform unchirped grating: max over the grid of | |H|^2 - sinh^2(g)/(cosh^2(g) - d^2/k^2) | (closed form evaluated by the harness in
    \* floating point, binding E); 1.5e-2 = accuracy of RK45 at its default tolerances for kL <= 8 (measured <= 6.7e-3)
    [] e.kind = "spectrum" -> IF e.dev_ppm > (IF e.weak THEN 3000 ELSE IF e.strong THEN 30000 ELSE 15000) THEN {"uniform-spectrum-closed-form"} ELSE {}      \* weak gratings (vdneff <= 2e-4): measured <= 1.1e-3; strong ones (kL 10..16, vdneff <= 5e-4): <= 1.3e-2
    \* energy of the side lobes beyond |d| = 10 k against the closed form (measured within 0.3 %)
    [] e.kind = "lobes" -> IF e.ratio_ppm < 970000 \/ e.ratio_ppm > 1030000 THEN {"uniform-spectrum-side-lobes"} ELSE {}
    [] e.kind = "route" -> IF e.ppt > 1000000 THEN {"equivalent-specifications-differ"} ELSE {}
    [] e.kind = "shape" -> IF ~e.same THEN {"shape-not-preserved"} ELSE {}
Bad == UNION {{<<i, c>> : c \in Clauses(Trace[i])} : i \in 1..Len(Trace)}
ASSUME JsonSerialize(IOEnv.OUT_FILE, [n |-> Len(Trace), bad |-> Bad])
=============================================================================
