------------------------------ MODULE TextTrace ------------------------------
(* C19, binding T: recorded calls of the utilities, validated with Text.tla / Sci.tla.
     dec2bin  [v, d, out, raised]
     si       [m, e, k, pm, prefix, wellformed]          si(m*10^e, unit, k) parsed as  pm*10^-k <prefix><unit>
     q        [k, val]                                    Q(k) as Sci, k = 0..8
     ident    [law, lhs, rhs]                             two sides of a law as Sci numbers (must agree)
     order    [law, a, b]                                 a <= b expected (Sci)
     verdict  [fn, neg, raised]                           db/dbm on negative input                     *)
EXTENDS Text, Sci, Json, IOUtils
Trace == ndJsonDeserialize(IOEnv.IN_FILE)
Clauses(e) ==
  CASE e.kind = "dec2bin" ->
         IF Dec2BinVerdict(e.v, e.d) = "ValueError" THEN (IF e.raised # "ValueError" THEN {"too-large-not-rejected"} ELSE {})
         ELSE (IF e.raised # "ok" THEN {"valid-rejected"} ELSE IF e.out # Bin(e.v, e.d) THEN {"expansion"} ELSE {})
    [] e.kind = "si" -> IF ~e.wellformed THEN {"si-format"} ELSE IF ~SiOK(e.m, e.e, e.k, e.pm, e.prefix) THEN {"si-prefix-or-mantissa"} ELSE {}
    [] e.kind = "q" -> IF ~SciClose(e.val, QTab[e.k + 1], 20) THEN {"Q-table"} ELSE {}
    [] e.kind = "ident" -> IF ~SciClose(e.lhs, e.rhs, e.tol) THEN {e.law} ELSE {}
    [] e.kind = "order" -> IF ~SciLeq(e.a, e.b, 0) THEN {e.law} ELSE {}
    [] e.kind = "verdict" -> IF e.neg /\ e.raised # "ValueError" THEN {"negative-accepted"} ELSE IF ~e.neg /\ e.raised # "ok" THEN {"valid-rejected"} ELSE {}
Bad == UNION {{<<i, c>> : c \in Clauses(Trace[i])} : i \in 1..Len(Trace)}
ASSUME JsonSerialize(IOEnv.OUT_FILE, [n |-> Len(Trace), bad |-> Bad])
=============================================================================
