------------------------------ MODULE FilterTrace ------------------------------
(* C11, bindings E and T: equalities between runs of the real LPF / BPF and tone measurements, judged here.
     law    [name, ppt]                          relative residual, parts per 10^12
     cutoff [mdB]                                attenuation of a tone at the cutoff, milli-dB (two-pass: 6.02 dB)
     mono   [ladder]                             attenuations in milli-dB for increasing frequency
     gain   [mdB]                                10 log10(P_out / P_in) of a stationary tone, milli-dB (must not be positive)
     reth   [cut_mdB, pairs]                     |H(BW)|^2 in milli-dB (single pass: -3.01); pairs of (2*single-pass, measured two-pass) milli-dB
     shape  [same]                                                                                          *)
EXTENDS Integers, Sequences, TLC, Json, IOUtils
Trace == ndJsonDeserialize(IOEnv.IN_FILE)
Laws == {"linear", "signal-and-noise-filtered-alike", "polarisations-independent", "constant-passes-unchanged", "zero-delay-symmetric-pulse",
         "ndarray-and-container-agree", "result-independent-of-call-history", "complex-envelope-kept", "explicit-fs-rescales-the-grid"}
Abs(v) == IF v < 0 THEN -v ELSE v
Clauses(e) ==
  CASE e.kind = "law" -> IF e.name \notin Laws THEN {"unknown-law"} ELSE IF e.ppt > e.tol_ppt THEN {e.name} ELSE {}
    [] e.kind = "cutoff" -> IF Abs(e.mdB - 6021) > 150 THEN {"minus-6dB-at-cutoff"} ELSE {}
    [] e.kind = "mono" -> IF \E i \in 1..(Len(e.ladder) - 1) : e.ladder[i + 1] < e.ladder[i] - 10 THEN {"attenuation-monotone"} ELSE {}
    [] e.kind = "gain" -> IF e.mdB > 5 THEN {"tone-power-increased"} ELSE {}
    [] e.kind = "reth" -> (IF Abs(e.cut_mdB + 3010) > 30 THEN {"retH-single-pass-at-cutoff"} ELSE {}) \cup
                          (IF \E i \in 1..Len(e.pairs) : Abs(e.pairs[i][1] - e.pairs[i][2]) > 100 THEN {"retH-is-the-prototype-on-the-same-grid"} ELSE {})
    [] e.kind = "shape" -> IF ~e.same THEN {"length-class-layout-preserved"} ELSE {}
Bad == UNION {{<<i, c>> : c \in Clauses(Trace[i])} : i \in 1..Len(Trace)}
ASSUME JsonSerialize(IOEnv.OUT_FILE, [n |-> Len(Trace), bad |-> Bad])
=============================================================================
