----------------------------- MODULE MC_BinSeq -----------------------------
(* Replay wrapper: prints every distinct (heap, last) as JSON so that the harness can execute the
   same call on the real class (binding R).  Token codes 3, 4, 5 stand for -1, 0.5 and a letter. *)
EXTENDS BinSeq, Json
Emit == PrintT(<<"EV", ToJson([heap |-> heap, last |-> last])>>)
BitStrings(n) == UNION {[1..k -> {0, 1}] : k \in 1..n}
PoolSmall == BitStrings(3)
PoolMid == BitStrings(6)
PoolWide == BitStrings(8)
=============================================================================
