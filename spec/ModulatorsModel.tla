---------------------------- MODULE ModulatorsModel ----------------------------
(* Bounded model of C06 on the lattice: every field of FieldPool (1/2 polarisations, with/without
   noise), every drive over Qs of matching length or scalar, both pol settings; then a second PM step
   for additivity. *)
EXTENDS Modulators, Json
CONSTANTS Qs, MaxLen
VARIABLES dev, sig, noise, hasnoise, q, pol, outS, outN, q2, out2
vars == <<dev, sig, noise, hasnoise, q, pol, outS, outN, q2, out2>>
Vals == {<<1, 0>>, <<0, 1>>, <<-2, 1>>, <<0, 0>>}
RowsOf(n) == [1..n -> Vals]
Fields == UNION {[1..p -> RowsOf(n)] : p \in {1, 2}, n \in 1..MaxLen}
Drives(n) == [1..n -> Qs] \cup [1..1 -> Qs]
None == <<>>
\* two noise patterns: an irregular one and one whose samples sum to zero (a noise component is present
\* whenever the array exists, whatever its values)
NoisePat(k, p, n) == IF k = 1 THEN [r \in 1..p |-> [i \in 1..n |-> <<i % 2, 1>>]]
                     ELSE [r \in 1..p |-> [i \in 1..n |-> IF n = 1 THEN CZero ELSE IF i % 2 = 1 THEN <<1, 0>> ELSE <<-1, 0>>]]
Init == /\ dev \in {"MZM", "PM"} /\ sig \in Fields /\ hasnoise \in BOOLEAN
        /\ \E k \in {1, 2} : noise = (IF hasnoise THEN NoisePat(k, Len(sig), Len(sig[1])) ELSE None)
        /\ q \in Drives(Len(sig[1])) /\ pol \in {"x", "y"} /\ (dev = "PM" => pol = "x")
        /\ outS = None /\ outN = None /\ q2 = None /\ out2 = None
Modulate == /\ outS = None
            /\ outS' = IF dev = "MZM" THEN Mzm(sig, q, pol) ELSE Pm(sig, q)
            /\ outN' = IF ~hasnoise THEN None ELSE IF dev = "MZM" THEN Mzm(noise, q, pol) ELSE Pm(noise, q)
            /\ UNCHANGED <<dev, sig, noise, hasnoise, q, pol, q2, out2>>
Again == /\ dev = "PM" /\ outS # None /\ q2 = None
         /\ \E qq \in Drives(Len(sig[1])) : q2' = qq /\ out2' = Pm(outS, qq)
         /\ UNCHANGED <<dev, sig, noise, hasnoise, q, pol, outS, outN>>
Next == Modulate \/ Again
Spec == Init /\ [][Next]_vars
Done == outS # None
\* ---- the property on the lattice
Passive == (Done /\ dev = "MZM") => \A r \in 1..Len(sig) : \A i \in 1..Len(sig[1]) : CNorm2(outS[r][i].v) <= CNorm2(sig[r][i])
OnOff == (Done /\ dev = "MZM") => \A r \in 1..Len(sig) : \A i \in 1..Len(sig[1]) :
            (outS[r][i].v # CZero) => (outS[r][i].attn <=> DriveAt(q, i) % 2 = 1)
Periodic == (Done /\ dev = "MZM") =>            \* u -> u + 2 Vpi (two quarter turns): same power, same attenuation class
   LET shifted == Mzm(sig, [i \in 1..Len(q) |-> q[i] + 2], pol) IN
   \A r \in 1..Len(sig) : \A i \in 1..Len(sig[1]) :
      CNorm2(shifted[r][i].v) = CNorm2(outS[r][i].v) /\ shifted[r][i].attn = outS[r][i].attn
NoiseLikeSignal == (Done /\ hasnoise) => outN = (IF dev = "MZM" THEN Mzm(noise, q, pol) ELSE Pm(noise, q))
PolBlanked == (Done /\ dev = "MZM" /\ Len(sig) = 2) =>
   \A i \in 1..Len(sig[1]) : (IF pol = "x" THEN outS[2][i].v ELSE outS[1][i].v) = CZero
PMPure == (Done /\ dev = "PM") => \A r \in 1..Len(sig) : \A i \in 1..Len(sig[1]) :
   CNorm2(IF hasnoise THEN CAdd(outS[r][i], outN[r][i]) ELSE outS[r][i]) = CNorm2(IF hasnoise THEN CAdd(sig[r][i], noise[r][i]) ELSE sig[r][i])
PMAdditive == (q2 # None) => out2 = Pm(sig, [i \in 1..Len(sig[1]) |-> DriveAt(q, i) + DriveAt(q2, i)])
Emit == (Done /\ q2 = None) => PrintT(<<"EV", ToJson([dev |-> dev, sig |-> sig, noise |-> noise, hasnoise |-> hasnoise, q |-> q, pol |-> pol,
                                                        outS |-> outS, outN |-> outN])>>)
QSet == {-1, 0, 1, 2, 3, 5}
QSmall == {-1, 0, 1, 2}
=============================================================================
