------------------------------- MODULE Channel -------------------------------
(* C07 - linear propagation (DM, FIBER with gamma = 0) on the exact phase lattice.
   The field is kept in the frequency domain: row r, bin b (FFT order) holds a Gaussian integer.
   With D = m*N^2/(4 pi fs^2) the dispersion filter is exp(-j w^2 D/2) = (-j)^(m k^2) for the signed
   bin index k; with beta3*L = m3*6N^3/(16 pi^2 fs^3) the cubic term is (-j)^(m3 k^3); attenuation
   alpha*L dB multiplies the field by 10^(-alpha L/20) and is tracked as an exact number of dB.
   Actions: DM(m) and Fiber(m2, m3, dB).  A history of spans must equal ONE filter with the summed
   parameters (group law / span additivity), conserve energy per bin up to the loss, and undo itself. *)
EXTENDS Arith, FiniteSets, TLC
CONSTANTS Ns, Ms, LossVals, MaxOps
VARIABLES N, npol, X0, X, loss, ops
vars == <<N, npol, X0, X, loss, ops>>

\* signed bin index of FFT position b (1-based), as numpy.fft.fftfreq: 0..ceil(N/2)-1, -floor(N/2)..-1
K(n, b) == IF b - 1 < (n + 1) \div 2 THEN b - 1 ELSE b - 1 - n
\* (-j)^(m2 k^2 + m3 k^3) as a power of j:  (-j) = j^3
JPow(n, b, m2, m3) == (3 * (m2 * K(n, b) * K(n, b) + m3 * K(n, b) * K(n, b) * K(n, b))) % 4
ApplyH(field, n, m2, m3) == [r \in 1..Len(field) |-> [b \in 1..n |-> CRot(field[r][b], JPow(n, b, m2, m3))]]

\* a fixed, irregular spectrum per (N, polarisation row)
Spectrum(n, r) == [b \in 1..n |-> <<((b * b + 3 * r) % 5) - 2, ((3 * b + r) % 4) - 1>>]
Init == /\ N \in Ns /\ npol \in {1, 2}
        /\ X0 = [r \in 1..npol |-> Spectrum(N, r)] /\ X = X0 /\ loss = 0 /\ ops = <<>>
DM(m) == /\ Len(ops) < MaxOps
         /\ X' = ApplyH(X, N, m, 0) /\ loss' = loss
         /\ ops' = Append(ops, [op |-> "DM", m2 |-> m, m3 |-> 0, dB |-> 0]) /\ UNCHANGED <<N, npol, X0>>
Fiber(m2, m3, dB) ==
         /\ Len(ops) < MaxOps
         /\ X' = ApplyH(X, N, m2, m3) /\ loss' = loss + dB
         /\ ops' = Append(ops, [op |-> "FIBER", m2 |-> m2, m3 |-> m3, dB |-> dB]) /\ UNCHANGED <<N, npol, X0>>
Next == (\E m \in Ms : DM(m)) \/ (\E m2 \in Ms, m3 \in Ms, dB \in LossVals : Fiber(m2, m3, dB))
Spec == Init /\ [][Next]_vars

RECURSIVE SumField(_, _, _)
SumField(s, f, i) == IF i > Len(s) THEN 0 ELSE s[i][f] + SumField(s, f, i + 1)
S2 == SumField(ops, "m2", 1)
S3 == SumField(ops, "m3", 1)
\* ---- the property on the lattice
EnergyPerBin == \A r \in 1..npol : \A b \in 1..N : CNorm2(X[r][b]) = CNorm2(X0[r][b])       \* all-pass
GroupLaw == X = ApplyH(X0, N, S2, S3)                          \* spans compose additively = one filter
LossAdds == loss = SumField(ops, "dB", 1)
Inverse == (S2 = 0 /\ S3 = 0) => X = X0                         \* DM(-D) undoes DM(D)
ShapeKept == Len(X) = npol /\ \A r \in 1..npol : Len(X[r]) = N
=============================================================================
