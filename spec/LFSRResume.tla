----------------------------- MODULE LFSRResume -----------------------------
(* C04: resumability and the recurrence wording of the property, for every register value of a
   small order and every split of a request. *)
EXTENDS LFSR
CONSTANTS N, T, MaxLen
\* ---- resume / recurrence model ----
\* every register value r, every split a + b <= MaxLen: two resumed calls = one call; and the
\* operational output equals the property's recurrence.
VARIABLES r0, a, b, phase
rvars == <<r0, a, b, phase>>
AllRegs == [1..N -> {0, 1}]
ResumeInit == /\ r0 \in AllRegs \ {[i \in 1..N |-> 0]}
              /\ a \in 0..MaxLen /\ b \in 0..MaxLen /\ a + b <= MaxLen /\ a + b >= 1
              /\ phase = "start"
ResumeNext == phase = "start" /\ phase' = "done" /\ UNCHANGED <<r0, a, b>>
ResumeOK == LET g1 == Gen(r0, N, T, a)
                g2 == Gen(g1[1], N, T, b)
                g  == Gen(r0, N, T, a + b)
            IN  /\ g1[2] \o g2[2] = g[2]
                /\ g2[1] = g[1]
RecurrenceOK == Gen(r0, N, T, a + b)[2] = Recurrence(r0, N, T, a + b)
=============================================================================
