INIT ResumeInit
NEXT ResumeNext
INVARIANT ResumeOK
INVARIANT RecurrenceOK
CHECK_DEADLOCK FALSE
