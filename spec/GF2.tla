-------------------------------- MODULE GF2 --------------------------------
(* C04: order of the LFSR's companion matrix over GF(2), by square-and-multiply as a small state
   machine.  A linear map on GF(2)^N is [0..N-1 -> SUBSET 0..N-1] (image of each basis vector e_i
   as the set of basis vectors with coefficient 1).  M is one clock of the register of LFSR.tla
   (bit k moves to k+1; bits N-1 and T-1 feed bit 0).
   M^E = I  for E = 2^N-1 together with M^(E/q) # I for every prime q | E gives ord(M) = 2^N-1,
   i.e. x^N+x^T+1 is primitive and every non-zero state lies on one cycle of length 2^N-1.
   This is how the 2^31-1 states of PRBS31 are covered (2^31-1 is prime: IsPrime checks it). *)
EXTENDS LFSR
CONSTANTS N, T,
          E,            \* exponent
          ExpectId      \* TRUE: M^E must be the identity; FALSE: it must not be

Dim == 0 .. (N - 1)
Id  == [i \in Dim |-> {i}]
M   == StepMatrix(N, T)                              \* one clock of LFSR.tla's register
Mul(A, B) == [i \in Dim |-> XorAll(B[i], A)]       \* A o B : first B, then A

VARIABLES e, P, Acc
vars == <<e, P, Acc>>
Init == e = E /\ P = M /\ Acc = Id
Next == /\ e > 0
        /\ Acc' = IF e % 2 = 1 THEN Mul(Acc, P) ELSE Acc
        /\ P' = Mul(P, P)
        /\ e' = e \div 2
Result == (e = 0) => ((Acc = Id) = ExpectId)

=============================================================================
