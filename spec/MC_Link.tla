-------------------------------- MODULE MC_Link --------------------------------
EXTENDS Link, Json
Emit == stage = "done" => PrintT(<<"EV", ToJson([sent |-> d.sent, plan |-> plan, inv |-> d.inv])>>)
=============================================================================
