------------------------------ MODULE PPGModel ------------------------------
(* Bounded state machine over PPG.tla: every setter with every request class and channel selection;
   histories of up to MaxOps data operations on a small memory (Chunk, MaxMem), data patterns being
   position coded so that a misplaced block is visible. *)
EXTENDS PPG, Json
CONSTANTS MaxOps
VARIABLES mem, cmds, last, nops, cfg
vars == <<mem, cmds, last, nops, cfg>>
Init == mem = <<>> /\ cmds = <<>> /\ last = [op |-> "init"] /\ nops = 0 /\ cfg = <<>>
\* request classes around each limit: far below, just below, min, inside, max, just above, far above
ReqVals(q) == IF q = "order" THEN {-3, 0, 7, 8, 10, 15, 16, 19, 23, 27, 31, 40, 1000}
              ELSE LET lo == Lim[q][1]  hi == Lim[q][2] IN {lo - 1000, lo - 1, lo, lo + 1, hi, hi + 1, hi * 10 + 5}
Sels == {<<>>, <<1>>, <<4>>, <<0>>, <<5>>, <<-2>>, <<1, 3>>, <<2, 2>>, <<0, 5>>, <<4, 3, 2, 1>>, <<1, 2, 3, 4, 5>>, <<9, 1, 1, 1, 1, 1>>}
Quantities == {"freq", "amp", "offs", "skew", "plen", "order"}
\* setters do not interact with the pattern memory: they are explored from the initial state only
Setter(q, req, scalar, sel) ==
  /\ last.op = "init"
  /\ cmds' = SetCmds(q, req, scalar, sel) /\ mem' = mem /\ nops' = nops /\ cfg' = ApplySettings(cfg, SetCmds(q, req, scalar, sel))
  /\ last' = [op |-> "set", q |-> q, req |-> req, scalar |-> scalar, sel |-> sel, warn |-> SetWarn(q, req, scalar, sel)]
SetFlag(verb, val, sel) ==
  /\ last.op = "init"
  /\ cmds' = FlagCmds(verb, val, sel) /\ mem' = mem /\ nops' = nops /\ cfg' = ApplySettings(cfg, FlagCmds(verb, val, sel))
  /\ last' = [op |-> "flag", verb |-> verb, val |-> val, sel |-> sel, warn |-> ChWarn(sel)]
Pattern(n, phase) == [i \in 1..n |-> IF ((i + phase) % 3 = 0) \/ ((i + phase) % 7 = 1) THEN 1 ELSE 0]
DataLens == {1, Chunk - 1, Chunk, Chunk + 1, 2 * Chunk, 2 * Chunk + 1, MaxMem, MaxMem + 2}
Addrs == {1, 2, Chunk, Chunk + 1, MaxMem - 1, MaxMem}
SetData(n, phase, addr, sel) ==
  LET c == DataCmds(Pattern(n, phase), addr, sel) IN
  /\ nops < MaxOps /\ nops' = nops + 1 /\ last.op \in {"init", "set_data", "get_data"}
  /\ cmds' = c /\ mem' = Store(mem, c) /\ cfg' = cfg
  /\ last' = [op |-> "set_data", bits |-> Pattern(n, phase), addr |-> addr, sel |-> sel,
              warn |-> (ChWarn(sel) \/ n > MaxMem - addr + 1)]
GetData(size, addr, sel) ==
  LET chs == Channels(sel) IN
  /\ nops < MaxOps /\ nops' = nops + 1 /\ size <= MaxMem - addr + 1 /\ last.op \in {"init", "set_data", "get_data"}
  /\ cmds' = <<>> /\ mem' = mem /\ cfg' = cfg
  /\ last' = [op |-> "get_data", size |-> size, addr |-> addr, sel |-> sel, warn |-> ChWarn(sel),
              data |-> [i \in 1..Len(chs) |-> Read(mem, chs[i], addr, size)]]
\* read a quantity back after one setter / flag / composite call (or from the power-on defaults)
GetQs == {"freq", "amp", "offs", "skew", "plen", "order", "PATT:TYPE", "PATT:BSH"}          \* (the driver has no output-state query)
\* (the quantity read is the one just written - or a few fixed ones after the composite call - to keep the instance small)
Related(q, sel) == \/ last.op = "init"
              \/ (last.op = "set" /\ q = last.q)
              \/ (last.op = "flag" /\ q = last.verb)
              \/ (last.op = "config" /\ sel \in {<<>>, <<0, 5>>}
                   /\ \/ (q = "amp" /\ last.c.amp # <<>>) \/ (q = "order" /\ last.c.order # <<>> /\ last.c.mode = <<1>>)
                      \/ (q = "PATT:TYPE" /\ last.c.mode # <<>>) \/ (q = "freq" /\ last.c.freq # <<>> /\ sel = <<>>))
Get(q, sel) ==
  /\ last.op \in {"init", "set", "flag", "config"} /\ Related(q, sel)
  /\ cmds' = GetQueries(q, sel) /\ mem' = mem /\ nops' = nops /\ cfg' = cfg
  /\ last' = [op |-> "get", q |-> q, sel |-> sel, vals |-> GetVals(cfg, q, sel), prev |-> last, warn |-> (q # "freq" /\ ChWarn(sel))]
OptOf(S) == {<<>>} \cup {<<v>> : v \in S}
Configs == [freq : OptOf({100, 500}), plen : OptOf({8}), amp : OptOf({25}), offs : OptOf({-35}), bsh : OptOf({3}), skew : OptOf({40}),
            mode : OptOf({0, 1}), order : OptOf({8}), data : OptOf({6})]
Config(c, sel) ==
  LET dc == IF ConfigSendsData(c) THEN DataCmds(Pattern(c.data[1], 0), 1, sel) ELSE <<>> IN
  /\ last.op = "init"
  /\ cmds' = ConfigSetCmds(c, sel) \o dc /\ mem' = Store(mem, dc) /\ nops' = nops /\ cfg' = ApplySettings(cfg, ConfigSetCmds(c, sel))
  /\ last' = [op |-> "config", c |-> c, sel |-> sel, mustwarn |-> ConfigMustWarn(c, sel),
              bits |-> IF ConfigSendsData(c) THEN Pattern(c.data[1], 0) ELSE <<>>]
Next == \/ \E q \in GetQs, sel \in {<<>>, <<2>>, <<4, 1>>, <<0, 5>>} : Get(q, sel)
        \/ \E c \in Configs, sel \in {<<>>, <<2>>, <<0, 5>>} : Config(c, sel)
        \/ \E verb \in FlagVerbs, val \in {0, 1}, sel \in Sels : SetFlag(verb, val, sel)
        \/ \E val \in {-3, 0, 17}, sel \in {<<>>, <<3>>, <<7>>} : SetFlag("PATT:BSH", val, sel)
        \/ \E q \in Quantities : \E v \in ReqVals(q), sel \in Sels : Setter(q, <<v>>, TRUE, sel)
        \/ \E q \in Quantities \ {"freq"} : \E v \in ReqVals(q), w \in ReqVals(q), sel \in {<<>>, <<2, 3>>, <<1, 2, 3>>} :
              Setter(q, <<v, w>>, FALSE, sel)
        \/ \E n \in DataLens, ph \in {0, 1}, a \in Addrs, sel \in {<<>>, <<2>>, <<3, 1>>} : SetData(n, ph, a, sel)
        \/ \E n \in DataLens, a \in Addrs, sel \in {<<>>, <<2>>, <<1, 3>>} : GetData(n, a, sel)
Spec == Init /\ [][Next]_vars
\* ---- the property on the model
IsQuery(c) == c.verb \notin SettingVerbs \cup {"PATT:DATA"}
EveryCmdInRange == \A i \in 1..Len(cmds) : IF cmds[i].verb = "PATT:DATA" THEN BlockOK(cmds[i])
                                            ELSE IF IsQuery(cmds[i]) THEN cmds[i].ch \in 0..NCh ELSE CmdOK(cmds[i])
\* what is read back is what the driver put into the instrument: always inside the documented limits
ReadBackInRange == last.op = "get" =>
   \A i \in 1..Len(last.vals) : \/ (last.q \in DOMAIN Verb /\ InRange(last.q, last.vals[i]))
                                  \/ (last.q = "PATT:TYPE" /\ last.vals[i] \in {0, 1})
                                  \/ last.q = "PATT:BSH"
\* the composite call emits exactly what the individual calls would emit, in the documented order
ConfigIsComposition == last.op = "config" =>
   cmds = ConfigSetCmds(last.c, last.sel) \o (IF ConfigSendsData(last.c) THEN DataCmds(last.bits, 1, last.sel) ELSE <<>>)
RECURSIVE Concat(_, _)
Concat(blocks, i) == IF i > Len(blocks) THEN <<>> ELSE blocks[i].bits \o Concat(blocks, i + 1)
ChunkingCorrect == last.op = "set_data" =>
   LET want == Fit(last.bits, last.addr)
       chs  == Channels(last.sel)
       nb   == (Len(want) + Chunk - 1) \div Chunk          \* blocks per channel
   IN  /\ Len(cmds) = nb * Len(chs)
       /\ \A k \in 1..Len(chs) :
             LET seg == SubSeq(cmds, (k - 1) * nb + 1, k * nb) IN
             /\ \A b \in 1..nb : seg[b].ch = chs[k] /\ seg[b].n <= Chunk /\ seg[b].n >= 1
             /\ seg[1].addr = last.addr
             /\ \A b \in 1..(nb - 1) : seg[b + 1].addr = seg[b].addr + seg[b].n      \* consecutive addresses
             /\ Concat(seg, 1) = want
RoundTrip == last.op = "set_data" =>
   LET want == Fit(last.bits, last.addr) IN
   \A ch \in {Channels(last.sel)[k] : k \in 1..Len(Channels(last.sel))} : Read(mem, ch, last.addr, Len(want)) = want
Emit == last.op # "init" => PrintT(<<"EV", ToJson([last |-> last, cmds |-> cmds, nops |-> nops])>>)
=============================================================================
