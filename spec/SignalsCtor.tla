----------------------------- MODULE SignalsCtor -----------------------------
(* C01 - constructor forms of electrical_signal / optical_signal as a decision table.
   A case is (cls, signal form, n_pol argument, noise form); the step computes the verdict and the
   layout of the object.  npol = 0 in the result means "not fixed by the property" (a (1,N) array
   without n_pol): only the contract is required there.  N is the length used by the harness. *)
EXTENDS Integers, Sequences, TLC, Json
CONSTANT N
VARIABLES case, res
vars == <<case, res>>
SigForms == {"scalar", "str1d", "list1d", "tuple1d", "nd1d", "nd1xN", "nd2xN", "list2xN", "str2xN", "nd3xN", "empty", "nd3d"}
OneD == {"str1d", "list1d", "tuple1d", "nd1d"}
TwoRow == {"nd2xN", "list2xN", "str2xN"}
NoiseForms == {"none", "same", "othershape"}
NpolArgs == {0, 1, 2}                       \* 0 = not given
Init == /\ case \in [cls : {"E", "O"}, sform : SigForms, npol : NpolArgs, nform : NoiseForms]
        /\ (case.cls = "E" => case.npol = 0)
        /\ res = [done |-> FALSE]
Raise == [done |-> TRUE, raised |-> TRUE, npol |-> -1, len |-> -1, rows |-> <<>>, hasnoise |-> FALSE]
Ret(p, l, rows, h) == [done |-> TRUE, raised |-> FALSE, npol |-> p, len |-> l, rows |-> rows, hasnoise |-> h]
\* rows: which input row feeds each output row (1-based; for scalar/1-D forms the only row is 1)
Construct(c) ==
  LET h == c.nform = "same" IN
  IF c.nform = "othershape" \/ c.sform \in {"nd3xN", "empty", "nd3d"} THEN Raise
  ELSE IF c.cls = "E" THEN
         (IF c.sform = "scalar" THEN Ret(1, 1, <<1>>, h)
          ELSE IF c.sform \in OneD THEN Ret(1, N, <<1>>, h) ELSE Raise)
  ELSE IF c.sform = "scalar" THEN (IF c.npol = 2 THEN Ret(2, 1, <<1, 1>>, h) ELSE Ret(1, 1, <<1>>, h))
  ELSE IF c.sform \in OneD THEN (IF c.npol = 2 THEN Ret(2, N, <<1, 1>>, h) ELSE Ret(1, N, <<1>>, h))
  ELSE IF c.sform = "nd1xN" THEN (IF c.npol = 1 THEN Ret(1, N, <<1>>, h)
                                  ELSE IF c.npol = 2 THEN Ret(2, N, <<1, 1>>, h) ELSE Ret(0, N, <<>>, h))
  ELSE (IF c.npol = 1 THEN Ret(1, N, <<1>>, h) ELSE Ret(2, N, <<1, 2>>, h))
Next == ~res.done /\ res' = Construct(case) /\ UNCHANGED case
Spec == Init /\ [][Next]_vars
\* every accepted construction satisfies the container contract
Contract == (res.done /\ ~res.raised) =>
   /\ res.len >= 1 /\ res.npol \in {0, 1, 2}
   /\ (case.cls = "E" => res.npol = 1)
   /\ (res.npol > 0 => Len(res.rows) = res.npol)
   /\ (case.npol > 0 => res.npol = case.npol)            \* an explicit n_pol is honoured
Emit == res.done => PrintT(<<"EV", ToJson([case |-> case, res |-> res])>>)
=============================================================================
