------------------------------ MODULE UnitsEmit ------------------------------
(* Serialises the monomials of Units.tla so that the harness can evaluate them with a generic
   product-of-powers evaluator at the parameters of a recorded call. *)
EXTENDS Units, Json, IOUtils
Ser(m) == [num |-> m.coef[1], den |-> m.coef[2], pow |-> m.pow]
ASSUME JsonSerialize(IOEnv.OUT_FILE,
   [ase_quadrature |-> Ser(AseQuadrature), ase_total |-> Ser(AseTotal), thermal_A2 |-> Ser(ThermalA2),
    shot_signal_A2 |-> Ser(ShotA2({"r", "P"})), shot_dark_A2 |-> Ser(ShotA2({"idark"})),
    thermal_V2 |-> Ser(ThermalV2), shot_V2 |-> Ser(ShotV2), pase_opt |-> Ser(PaseOpt), mu_ase |-> Ser(MuAse), level |-> Ser(Level)])
=============================================================================
