----------------------------- MODULE LFSRCycle -----------------------------
(* C04: exhaustive walk of the generator's state cycle from the all-ones state.  TLC visits
   every state of the cycle; the invariants say the cycle has length exactly 2^N-1 (hence it
   contains every non-zero state), is balanced, and that the three register encodings agree. *)
EXTENDS LFSR
CONSTANTS N, T
VARIABLES reg,     \* set form of the register
          k,       \* clocks since the start state
          ones     \* ones emitted so far
vars == <<reg, k, ones>>

Start == 0 .. (N - 1)                                \* PRBS() default seed: all ones
Period == Pow2(N) - 1

CycleInit == reg = Start /\ k = 0 /\ ones = 0
CycleNext == /\ ~(k > 0 /\ reg = Start)              \* stop when the start state recurs
             /\ reg' = StepSet(reg, N, T)
             /\ k' = k + 1
             /\ ones' = ones + (IF 0 \in reg THEN 1 ELSE 0)
CycleSpec == CycleInit /\ [][CycleNext]_vars /\ WF_vars(CycleNext)

NeverZero == reg # {}
WithinPeriod == k <= Period                          \* no cycle longer than 2^N - 1 (trivial) ...
ReturnsOnlyAtPeriod == (k > 0 /\ reg = Start) => (k = Period /\ ones = Pow2(N - 1))
\* the three register forms take the same step on every reachable state
StepAgree == /\ SetToBits(StepSet(reg, N, T), N) = StepBits(SetToBits(reg, N), N, T)
             /\ (N <= 23 => SetToInt(StepSet(reg, N, T)) = StepInt(SetToInt(reg), N, T))
             /\ OutBits(SetToBits(reg, N)) = (IF 0 \in reg THEN 1 ELSE 0)
             /\ StepSet(reg, N, T) = XorAll(reg, StepMatrix(N, T))      \* the matrix of GF2.tla
             /\ (N <= 23 => OutInt(SetToInt(reg)) = (IF 0 \in reg THEN 1 ELSE 0))
Returns == <>(k > 0 /\ reg = Start)                  \* the start state does recur (liveness)
=============================================================================
