-------------------------------- MODULE PPM --------------------------------
(* C12 - pulse-position modulation codec of opticomlib.ppm as TLA+ operators.
   Bit strings and slot patterns are sequences over {0,1}. *)
EXTENDS Integers, Sequences, FiniteSets, TLC

RECURSIVE Log2(_)
Log2(m) == IF m <= 1 THEN 0 ELSE 1 + Log2(m \div 2)
RECURSIVE Pow2(_)
Pow2(k) == IF k = 0 THEN 1 ELSE 2 * Pow2(k - 1)
IsPow2(m) == m >= 1 /\ Pow2(Log2(m)) = m

\* big-endian value of a k-bit word
RECURSIVE ValFrom(_, _, _)
ValFrom(w, i, acc) == IF i > Len(w) THEN acc ELSE ValFrom(w, i + 1, 2 * acc + w[i])
Val(w) == ValFrom(w, 1, 0)
\* k-digit big-endian expansion
Bin(v, k) == [i \in 1..k |-> (v \div Pow2(k - i)) % 2]

NSym(b, M) == Len(b) \div Log2(M)                       \* whole symbols in a bit string
Word(b, M, j) == SubSeq(b, (j - 1) * Log2(M) + 1, j * Log2(M))
\* one ON slot per block of M slots, at the position given by the word's value
Encode(b, M) == [p \in 1..(NSym(b, M) * M) |->
                   IF (p - 1) % M = Val(Word(b, M, ((p - 1) \div M) + 1)) THEN 1 ELSE 0]
Block(s, M, j) == SubSeq(s, (j - 1) * M + 1, j * M)
OnSlots(blk) == {i \in 1..Len(blk) : blk[i] = 1}           \* 1-based positions inside a block
IsCodeword(s, M) == /\ Len(s) % M = 0
                    /\ \A j \in 1..(Len(s) \div M) : Cardinality(OnSlots(Block(s, M, j))) = 1
\* decoder on a codeword: position of the ON slot of each symbol -> Log2(M) bits
RECURSIVE Flatten(_, _, _)
Flatten(f, j, n) == IF j > n THEN <<>> ELSE f[j] \o Flatten(f, j + 1, n)
Decode(s, M) == LET n == Len(s) \div M
                    w == [j \in 1..n |-> Bin((CHOOSE i \in OnSlots(Block(s, M, j)) : TRUE) - 1, Log2(M))]
                IN  Flatten(w, 1, n)
Truncate(b, M) == SubSeq(b, 1, NSym(b, M) * Log2(M))

\* hard decision: a relation (the repair is random) - out is a codeword, symbols with exactly one ON
\* slot are untouched, symbols with several keep one of them (an empty symbol gets any slot)
HddAllowed(in, out, M) ==
  /\ Len(out) = Len(in)
  /\ IsCodeword(out, M)
  /\ \A j \in 1..(Len(in) \div M) :
        LET a == OnSlots(Block(in, M, j))  b == OnSlots(Block(out, M, j))
        IN  IF a = {} THEN TRUE ELSE b \subseteq a
RECURSIVE HddSuccFrom(_, _, _)
HddSuccFrom(in, M, j) ==           \* all allowed outputs for symbols j.., built symbol by symbol
  IF j > Len(in) \div M THEN {<<>>}
  ELSE LET a == OnSlots(Block(in, M, j))
           ch == IF a = {} THEN 1..M ELSE a
       IN  {[p \in 1..M |-> IF p = c THEN 1 ELSE 0] \o rest : c \in ch, rest \in HddSuccFrom(in, M, j + 1)}
HddSuccessors(in, M) == HddSuccFrom(in, M, 1)

\* soft decision on a waveform x (sequence of integers), sps samples per slot
RECURSIVE SumFrom(_, _, _)
SumFrom(x, i, j) == IF i > j THEN 0 ELSE x[i] + SumFrom(x, i + 1, j)
SlotSums(x, sps) == [q \in 1..(Len(x) \div sps) |-> SumFrom(x, (q - 1) * sps + 1, q * sps)]
SddAllowed(x, sps, out, M) ==
  LET e == SlotSums(x, sps) IN
  /\ Len(out) = Len(e)
  /\ IsCodeword(out, M)
  /\ \A j \in 1..(Len(e) \div M) :
        LET blk == Block(e, M, j)
            on  == CHOOSE i \in OnSlots(Block(out, M, j)) : TRUE
        IN  \A i \in 1..M : blk[i] <= blk[on]

\* the ON slot of every symbol of codeword `out` is the strict maximum of the slot energies
SddStrict(x, sps, out, M) ==
  LET e == SlotSums(x, sps) IN
  \A j \in 1..(Len(e) \div M) :
     LET blk == Block(e, M, j)
         on  == CHOOSE i \in OnSlots(Block(out, M, j)) : TRUE
     IN  \A i \in (1..M) \ {on} : blk[i] < blk[on]

\* HDD / SDD argument verdict: M first, then the length
DecisionVerdict(M, len, unit) ==
  IF ~IsPow2(M) THEN "ValueError" ELSE IF len % (M * unit) # 0 THEN "ValueError" ELSE "ok"
=============================================================================
