------------------------------- MODULE Spectral -------------------------------
(* C02 - x('w'|'f'|'t', shift) , w(), power() of the signal containers.
   (a) exact DFT for N in {1,2,4} over Gaussian integers (roots of unity are powers of j);
   (b) the two numpy rotations as index maps for every N;
   (c) the frequency axis as the sequence of signed bin indices (times 2 pi fs / N);
   (d) power as the exact rational  sum|s+n|^2 / N. *)
EXTENDS Arith, FiniteSets, TLC
\* DFT of one row (N = Len(x) in {1,2,4}):  X[k] = sum_n x[n] (-j)^(k n (4/N))
RECURSIVE DftSum(_, _, _, _)
DftSum(x, k, n, sign) == IF n > Len(x) THEN CZero
                         ELSE CAdd(CRot(x[n], (sign * (k - 1) * (n - 1) * (4 \div Len(x))) % 4), DftSum(x, k, n + 1, sign))
Fwd(x) == [k \in 1..Len(x) |-> DftSum(x, k, 1, 3)]          \* (-j) = j^3
InvTimesN(X) == [n \in 1..Len(X) |-> DftSum(X, n, 1, 1)]     \* N * ifft(X)
\* numpy.fft.fftshift / ifftshift on a sequence (1-based): result[i] = x[src(i)]
ShiftSrc(n, i) == ((i - 1 - (n \div 2)) % n) + 1             \* fftshift : roll by +floor(n/2)
IShiftSrc(n, i) == ((i - 1 + (n \div 2)) % n) + 1            \* ifftshift: roll by -floor(n/2)
FftShift(x) == [i \in 1..Len(x) |-> x[ShiftSrc(Len(x), i)]]
IfftShift(x) == [i \in 1..Len(x) |-> x[IShiftSrc(Len(x), i)]]
\* signed bin index of FFT position b (numpy.fft.fftfreq * N)
K(n, b) == IF b - 1 < (n + 1) \div 2 THEN b - 1 ELSE b - 1 - n
Axis(n, shift) == LET a == [b \in 1..n |-> K(n, b)] IN IF shift THEN FftShift(a) ELSE a
\* transform of one row; the inverse is returned times N (kept integral), flag says which
Transform(x, dom, shift) ==
  IF dom \in {"w", "f"} THEN [scaledByN |-> FALSE, v |-> IF shift THEN FftShift(Fwd(x)) ELSE Fwd(x)]
  ELSE [scaledByN |-> TRUE, v |-> IF shift THEN IfftShift(InvTimesN(x)) ELSE InvTimesN(x)]
RECURSIVE Energy(_, _)
Energy(x, i) == IF i > Len(x) THEN 0 ELSE CNorm2(x[i]) + Energy(x, i + 1)
=============================================================================
