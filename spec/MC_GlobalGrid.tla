---------------------------- MODULE MC_GlobalGrid ----------------------------
(* History-carrying wrapper for replay: `hist` is the sequence of calls made so far, so that every
   distinct state is one history; Emit prints it with the spec's resulting grid state. *)
EXTENDS GlobalGrid, Json
CONSTANT MaxHist
VARIABLE hist
HInit == Init /\ hist = <<>>
HNext == Len(hist) < MaxHist /\ Next /\ hist' = Append(hist, last')
HSpec == HInit /\ [][HNext]_<<vars, hist>>
State == [sps |-> sps, R |-> R, fs |-> fs, wl |-> wl, N |-> N, grid |-> grid, custom |-> custom]
Emit == (Len(hist) > 0) => PrintT(<<"EV", ToJson([hist |-> hist, state |-> State])>>)
=============================================================================
