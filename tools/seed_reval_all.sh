#!/bin/bash
# Re-runs the property's quick check against every stored seeded change (scratch worktree of /repo HEAD + patch) and
# prints one line per change; used after any change to the checks (or a fix: commit in /repo) to make sure no detection was lost.
# usage: tools/seed_reval_all.sh [parallel jobs (default 4)] [name pattern (default *)]
cd /verif
one() {
  d=$1; name=$(basename $d); pid=${name%%_*}
  wt=/tmp/reval_${name}_$$
  git -C /repo worktree add -q --detach $wt HEAD || return
  ( cd $wt && (git apply /verif/$d/patch.diff 2>/dev/null || patch -p1 -s -F3 < /verif/$d/patch.diff >/dev/null 2>&1) ) || { echo "$name PATCH-FAILED"; git -C /repo worktree remove --force $wt; return; }
  VERIF_REPO=$wt VERIF_EVIDENCE_DIR=/tmp/reval_ev_${name}_$$ VERIF_REPLAY_DIR=/tmp/reval_ev_${name}_$$ timeout 3000 ./check $pid quick > /tmp/reval_out_${name}_$$ 2>&1; rc=$?
  echo "$name rc=$rc $(grep -m1 -E 'violation' /tmp/reval_out_${name}_$$ | cut -c1-120)"
  git -C /repo worktree remove --force $wt
  rm -rf /tmp/reval_ev_${name}_$$ /tmp/reval_out_${name}_$$
}
export -f one
ls -d seeded/${2:-*}/ | xargs -P ${1:-4} -I{} bash -c 'one {}'
