#!/bin/bash
# Re-runs the property's quick check against every stored seeded change (scratch worktree of /repo HEAD + patch) and
# prints one line per change; used after any change to the checks to make sure no detection was lost.
cd /verif
for d in seeded/*/; do
  name=$(basename $d); pid=${name%%_*}
  wt=/tmp/reval_${name}_$$
  git -C /repo worktree add -q --detach $wt HEAD || continue
  ( cd $wt && (git apply $OLDPWD/$d/patch.diff 2>/dev/null || git apply --3way $OLDPWD/$d/patch.diff 2>/dev/null || patch -p1 -s -F3 < $OLDPWD/$d/patch.diff) ) || { echo "$name PATCH-FAILED"; git -C /repo worktree remove --force $wt; continue; }
  VERIF_REPO=$wt VERIF_EVIDENCE_DIR=/tmp/reval_ev_$$ VERIF_REPLAY_DIR=/tmp/reval_ev_$$ timeout 3000 ./check $pid quick > /tmp/reval_out_$$ 2>&1; rc=$?
  echo "$name rc=$rc $(grep -m1 -E 'violation' /tmp/reval_out_$$ | cut -c1-120)"
  git -C /repo worktree remove --force $wt
done
rm -rf /tmp/reval_ev_$$ /tmp/reval_out_$$
