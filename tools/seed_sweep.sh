#!/bin/bash
# usage: tools/seed_sweep.sh "<seeds>" [tier] [checks...] : runs every check under several VERIF_SEED values (evidence/replays to a scratch dir)
# and prints the runs that did not exit 0 - used to shake out seed-dependent false alarms.
seeds=${1:-"1 2 3"}; tier=${2:-quick}; shift 2 2>/dev/null
checks=${@:-C01 C02 C03 C04 C05 C06 C07 C08 C09 C10 C11 C12 C13 C14 C15 C16 C17 C18 C19 C20}
cd /verif
for s in $seeds; do for c in $checks; do
  out=$(VERIF_SEED=$s VERIF_EVIDENCE_DIR=/tmp/sweep_ev_$s VERIF_REPLAY_DIR=/tmp/sweep_ev_$s timeout 3000 ./check $c $tier 2>&1); rc=$?
  if [ $rc -ne 0 ]; then echo "seed=$s $c rc=$rc"; echo "$out" | grep -E "violation|MACHINERY|Error" | head -3 | cut -c1-300; else echo "seed=$s $c ok $(echo "$out" | tail -1 | grep -o 'wall=.*')"; fi
done; rm -rf /tmp/sweep_ev_$s; done
