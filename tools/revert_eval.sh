#!/bin/bash
# usage: tools/revert_eval.sh <fix-commit> <Cxx> : shows that the check reports the defect again when a "fix:" commit is undone
set -u
c=$1; pid=$2; wt=/tmp/reverteval_$$
git -C /repo worktree add -q --detach $wt HEAD || exit 2
( cd $wt && git revert --no-commit $c >/dev/null 2>&1 || echo "REVERT FAILED" )
cd /verif && VERIF_REPO=$wt VERIF_EVIDENCE_DIR=/tmp/reverteval_ev_$$ VERIF_REPLAY_DIR=/tmp/reverteval_ev_$$ timeout 3000 ./check $pid quick 2>&1 | grep -E "violation|VIOLATION|^OK|MACHINERY" | head -${3:-3}
cd /; git -C /repo worktree remove --force $wt; rm -rf /tmp/reverteval_ev_$$
