#!/bin/bash
# Re-runs, for every stored property-preserving change (benign/<name>/), the checks recorded in its meta.json against /repo HEAD + patch:
# every check must still exit 0.  usage: tools/benign_reval_all.sh [parallel jobs (default 3)] [name pattern]
cd /verif
one() {
  d=$1; name=$(basename $d)
  checks=$(python3 -c "import json; print(' '.join(c.split('=')[0] for c in json.load(open('/verif/$d/meta.json')).get('checks', [])))")
  wt=/tmp/breval_${name}_$$
  git -C /repo worktree add -q --detach $wt HEAD || return
  ( cd $wt && (git apply /verif/$d/patch.diff 2>/dev/null || patch -p1 -s -F3 < /verif/$d/patch.diff >/dev/null 2>&1) ) || { echo "$name PATCH-FAILED"; git -C /repo worktree remove --force $wt; return; }
  res=""
  for pid in $checks; do
    VERIF_REPO=$wt VERIF_EVIDENCE_DIR=/tmp/breval_ev_${name}_$$ VERIF_REPLAY_DIR=/tmp/breval_ev_${name}_$$ timeout 3000 ./check $pid quick > /tmp/breval_out_${name}_$pid 2>&1; rc=$?
    res="$res $pid=$rc"
    [ $rc -ne 0 ] && cp /tmp/breval_out_${name}_$pid /verif/$d/recheck_$pid.txt
    rm -f /tmp/breval_out_${name}_$pid
  done
  echo "$name$res"
  git -C /repo worktree remove --force $wt; rm -rf /tmp/breval_ev_${name}_$$
}
export -f one
ls -d benign/${2:-*}/ | xargs -P ${1:-3} -I{} bash -c 'one {}'
