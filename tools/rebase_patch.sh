#!/bin/bash
# usage: tools/rebase_patch.sh <patch.diff> <base-commit>  -> rewrites the patch (made against <base-commit>) so that it applies to /repo HEAD
# (three-way merge of every touched file: ours = HEAD, base = <base-commit>, theirs = <base-commit> + patch)
set -eu
patch=$(readlink -f $1); base=$2
wt=/tmp/rebase_$$; wh=/tmp/rebaseh_$$
git -C /repo worktree add -q --detach $wt $base
git -C /repo worktree add -q --detach $wh HEAD
trap "git -C /repo worktree remove --force $wt; git -C /repo worktree remove --force $wh" EXIT
cd $wt; git apply $patch
for f in $(git diff --name-only); do
  git show $base:$f > /tmp/rebase_base_$$
  git merge-file $wh/$f /tmp/rebase_base_$$ $wt/$f || { echo "CONFLICT in $f"; exit 1; }
done
rm -f /tmp/rebase_base_$$
cd $wh; git diff > $patch; echo "rebased: $(git diff --stat | tail -1)"
