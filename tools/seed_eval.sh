#!/bin/bash
# usage: tools/seed_eval.sh <Cxx> <dir with patch.diff demo.py meta.json> <name> [tier]
# Confirms a seeded property-breaking change in a scratch worktree of /repo (suite still passes, the
# demonstration fails with the change and passes without it), then runs ./check <Cxx> against that
# worktree (VERIF_REPO) - equivalent to `git -C /repo apply`, run, `git -C /repo checkout -- .`, but
# leaves /repo untouched so that other checks can run meanwhile.  Stores everything in /verif/seeded/<name>/.
set -u
pid=$1; src=$2; name=$3; tier=${4:-quick}
wt=/tmp/seedeval_${name}_$$
out=/verif/seeded/$name
mkdir -p $out
git -C /repo worktree add -q --detach $wt HEAD || exit 2
cd $wt
cp $src/demo.py $wt/_demo.py
clean_demo=$(MPLBACKEND=Agg timeout 600 /venv/bin/python _demo.py >/dev/null 2>&1; echo $?)
if ! git apply $src/patch.diff 2>/dev/null && ! patch -p1 -s -F3 < $src/patch.diff; then echo "PATCH DOES NOT APPLY"; cd /; git -C /repo worktree remove --force $wt; exit 3; fi
suite=$(MPLBACKEND=Agg timeout 900 /venv/bin/python -m pytest -q -p no:cacheprovider --timeout=900 2>&1 | tail -1)
mut_demo=$(MPLBACKEND=Agg timeout 600 /venv/bin/python _demo.py >/dev/null 2>&1; echo $?)
rm -f _demo.py
echo "clean demo rc=$clean_demo  mutant demo rc=$mut_demo  suite: $suite"
cp $src/patch.diff $src/demo.py $out/ 2>/dev/null
cd /verif && VERIF_REPO=$wt VERIF_EVIDENCE_DIR=/tmp/seedeval_ev_$$ VERIF_REPLAY_DIR=$out/replay timeout 3000 ./check $pid $tier > $out/check_output.txt 2>&1; rc=$?
cd /; git -C /repo worktree remove --force $wt; rm -rf /tmp/seedeval_ev_$$
grep -E "violation|VIOLATION|OK|MACHINERY" $out/check_output.txt | head -4
python3 - <<PY
import json,os
m=json.load(open("$src/meta.json")) if os.path.exists("$src/meta.json") else {}
m.update({"breaks_property":"$pid","confirmed":{"clean_demo_rc":$clean_demo,"mutant_demo_rc":$mut_demo,"suite_with_change":"""$suite"""},
 "ran":"scratch worktree of /repo HEAD + patch.diff; VERIF_REPO=<worktree> ./check $pid $tier","check_exit_code":$rc,"detected":$rc==1})
json.dump(m,open("$out/meta.json","w"),indent=1)
PY
echo "RESULT $name check_rc=$rc"
