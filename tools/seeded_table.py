"""Prints the markdown table of seeded changes (from /verif/seeded/*/meta.json) for DESIGN.md appendix B."""
import json, glob, os
rows = []
for d in sorted(glob.glob('/verif/seeded/*/')):
    m = os.path.join(d, 'meta.json')
    if not os.path.exists(m):
        continue
    j = json.load(open(m))
    name = os.path.basename(d.rstrip('/'))
    det = j.get('detected')
    first = ''
    co = os.path.join(d, 'check_output.txt')
    if os.path.exists(co):
        for line in open(co):
            if line.strip().startswith('violation'):
                first = line.strip()[len('violation '):].split(': ')[0][:90]
                break
    rows.append((name, j.get('breaks_property', ''), (j.get('summary') or '')[:150].replace('|', '/').replace('\n', ' '),
                 (j.get('needs_to_manifest') or '')[:120].replace('|', '/').replace('\n', ' '), ('n/a (no longer a violation, see note)' if j.get('superseded') else ('yes' if det else 'NO')), first))
print('| seeded change | property | what it does | needs to manifest | detected by `./check` | first clause reported |')
print('|---|---|---|---|---|---|')
for r in rows:
    print('| ' + ' | '.join(r) + ' |')
print(f'\n{sum(1 for r in rows if r[4]=="yes")} of {len(rows)} detected; {sum(1 for r in rows if r[4].startswith("n/a"))} superseded by a later fix of /repo ('
      + '; '.join(r[0] for r in rows if r[4].startswith("n/a")) + ': no longer a violation on the repaired tree, reason in the `superseded` field of their meta.json).')
