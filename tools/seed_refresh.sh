#!/bin/bash
# usage: tools/seed_refresh.sh <name> [...]   re-runs the quick check of a stored seeded change against /repo HEAD + its patch and
# refreshes seeded/<name>/check_output.txt, replay and the detection fields of its meta (after a check gained a clause that now reports it first)
cd /verif
for name in "$@"; do
  pid=${name%%_*}; out=/verif/seeded/$name; wt=/tmp/seedrefresh_${name}_$$
  git -C /repo worktree add -q --detach $wt HEAD || exit 2
  ( cd $wt && (git apply $out/patch.diff 2>/dev/null || patch -p1 -s -F3 < $out/patch.diff >/dev/null 2>&1) ) || { echo "$name PATCH-FAILED"; git -C /repo worktree remove --force $wt; continue; }
  VERIF_REPO=$wt VERIF_EVIDENCE_DIR=/tmp/seedrefresh_ev_$$ VERIF_REPLAY_DIR=$out/replay timeout 3000 ./check $pid quick > $out/check_output.txt 2>&1; rc=$?
  git -C /repo worktree remove --force $wt; rm -rf /tmp/seedrefresh_ev_$$
  python3 - <<PY
import json
p="$out/meta.json"; m=json.load(open(p)); m.update({"check_exit_code":$rc,"detected":$rc==1}); json.dump(m,open(p,"w"),indent=1)
PY
  echo "$name rc=$rc $(grep -m1 violation $out/check_output.txt | cut -c1-140)"
done
