#!/bin/bash
# usage: tools/benign_eval.sh <absolute dir with patch.diff meta.json> <name> <Cxx> [<Cyy> ...]
# A property-PRESERVING change (refactor / optimisation written by a sub-agent that only saw the property text): the listed checks
# must pass on it (exit 0) - the measurement of the false-alarm rate.  Same mechanics as seed_eval.sh (scratch worktree, VERIF_REPO).
set -u
src=$1; name=$2; shift 2
wt=/tmp/benigneval_${name}_$$
out=/verif/benign/$name
mkdir -p $out
git -C /repo worktree add -q --detach $wt HEAD || exit 2
cd $wt
if ! git apply $src/patch.diff 2>/dev/null && ! patch -p1 -s -F3 < $src/patch.diff >/dev/null 2>&1; then echo "$name PATCH DOES NOT APPLY"; cd /; git -C /repo worktree remove --force $wt; exit 3; fi
suite=$(MPLBACKEND=Agg timeout 900 /venv/bin/python -m pytest -q -p no:cacheprovider --timeout=900 2>&1 | tail -1)
cp $src/patch.diff $src/meta.json $out/ 2>/dev/null
res=""
cd /verif
for pid in "$@"; do
  VERIF_REPO=$wt VERIF_EVIDENCE_DIR=/tmp/benigneval_ev_$$ VERIF_REPLAY_DIR=$out/replay timeout 3000 ./check $pid quick > $out/check_$pid.txt 2>&1; rc=$?
  res="$res $pid=$rc"
done
cd /; git -C /repo worktree remove --force $wt; rm -rf /tmp/benigneval_ev_$$
python3 - <<PY
import json,os
p="$out/meta.json"
m=json.load(open(p)) if os.path.exists(p) else {}
m.update({"suite_with_change":"""$suite""","checks":"""$res""".split(),"ran":"scratch worktree of /repo HEAD + patch.diff; VERIF_REPO=<worktree> ./check <Cxx> quick"})
json.dump(m,open(p,"w"),indent=1)
PY
echo "BENIGN $name suite=[$suite] checks:$res"
